(* Proofs about ChanProto: for ALL operation sequences of the nondeterministic environment
   (any number of consumers and producers, any timing, faults at any suspension point). *)
Require Import ZArith List Bool Lia.
Import ListNotations.
From Usim Require Import ChanProto.

(* the messages put since consumer c subscribed *)
Definition pend (ps : list Z) (c : cons) : list Z := skipn (csub c) ps.

Definition single_recv (c : cons) : Prop :=
  ckind c = Single -> match cout c with OGot _ => True | _ => crecv c = [] end.

Definition cinv (cl : bool) (ps : list Z) (c : cons) : Prop :=
  csub c <= length ps /\
  single_recv c /\
  match cph c with
  | Waiting => cout c = ONone /\ cl = false /\ cbuf c = [] /\ crecv c = pend ps c
  | Woken => cout c = ONone /\ (cbuf c <> [] \/ cl = true) /\ crecv c ++ cbuf c = pend ps c
  | Postponed => cout c = ONone /\ ckind c = Iter /\ cbuf c <> [] /\ crecv c ++ cbuf c = pend ps c
  | Body | Abandoned => cout c = ONone /\ ckind c = Iter /\ crecv c ++ cbuf c = pend ps c
  | Done =>
      match cout c with
      | OGot x => ckind c = Single /\ crecv c = [x] /\ nth_error ps (csub c) = Some x
      | OClosed => ckind c = Single /\ cl = true /\ crecv c = [] /\ pend ps c = []
      | OEnded => ckind c = Iter /\ cl = true /\ crecv c = pend ps c
      | OFault => exists rest, crecv c ++ rest = pend ps c
      | OLeft => ckind c = Iter /\ exists rest, crecv c ++ rest = pend ps c
      | ONone | OError => False
      end
  end.

Definition Inv (s : state) : Prop :=
  NoDup (map cid (conss s)) /\ Forall (cinv (closed s) (puts s)) (conss s).

(* ---------- list facts *)
Lemma skipn_snoc : forall (A : Type) n (l : list A) x,
  n <= length l -> skipn n (l ++ [x]) = skipn n l ++ [x].
Proof.
  intros. rewrite skipn_app. replace (n - length l) with 0 by lia. reflexivity.
Qed.

Lemma skipn_cons_nth : forall (A : Type) n (l : list A) x r,
  skipn n l = x :: r -> nth_error l n = Some x.
Proof.
  induction n; destruct l; simpl; intros; try discriminate.
  - inversion H; reflexivity.
  - eauto.
Qed.

Lemma find_none_notin : forall i l, find i l = None -> ~ In i (map cid l).
Proof.
  unfold find. induction l; simpl; intros; auto.
  destruct (cid a =? i) eqn:E; try discriminate.
  apply Nat.eqb_neq in E. intros [F | F]; auto. apply IHl; auto.
Qed.

Lemma find_some : forall i l c, find i l = Some c -> In c l /\ cid c = i.
Proof.
  unfold find. intros. apply find_some in H. destruct H. apply Nat.eqb_eq in H0. auto.
Qed.

Lemma find_snoc : forall j l c,
  find j (l ++ [c]) =
  match find j l with Some x => Some x | None => if cid c =? j then Some c else None end.
Proof.
  unfold find. induction l; simpl; intros; auto.
  destruct (cid a =? j); auto.
Qed.

Lemma find_map : forall j (g : cons -> cons) l,
  (forall c, cid (g c) = cid c) -> find j (map g l) = option_map g (find j l).
Proof.
  unfold find. induction l; simpl; intros; auto.
  rewrite H. destruct (cid a =? j); auto.
Qed.

Lemma find_upd : forall j i (f : cons -> cons) l,
  (forall c, cid (f c) = cid c) ->
  find j (upd i f l) = if j =? i then option_map f (find j l) else find j l.
Proof.
  unfold find, upd. induction l; simpl; intros.
  - destruct (j =? i); auto.
  - destruct (cid a =? i) eqn:E.
    + rewrite H. destruct (cid a =? j) eqn:F.
      * apply Nat.eqb_eq in E, F. subst. rewrite Nat.eqb_refl. reflexivity.
      * rewrite IHl; auto.
    + destruct (cid a =? j) eqn:F.
      * apply Nat.eqb_eq in F. subst. rewrite E. reflexivity.
      * rewrite IHl; auto.
Qed.

Lemma map_cid_map : forall (g : cons -> cons) l,
  (forall c, cid (g c) = cid c) -> map cid (map g l) = map cid l.
Proof. intros. rewrite map_map. apply map_ext. auto. Qed.

(* ---------- the sections preserve identities *)
Lemma cid_wake : forall c, cid (wake c) = cid c.
Proof. intros. unfold wake. destruct (cph c); reflexivity. Qed.

Lemma cid_c_put : forall x c, cid (c_put x c) = cid c.
Proof. intros. unfold c_put. destruct (registered c); auto. rewrite cid_wake. reflexivity. Qed.

Lemma cid_local : forall o cl c c' r, local o cl c = Some (c', r) -> cid c' = cid c.
Proof.
  intros. unfold local, iter_loop, iter_wake, yield_head, single_resume in H.
  destruct o, (cph c), (ckind c); try discriminate;
    try (destruct (cbuf c)); try destruct cl; inversion H; reflexivity.
Qed.

Definition lf (o : op) (cl : bool) (c : cons) : cons :=
  match local o cl c with Some (c', _) => c' | None => c end.

Lemma cid_lf : forall o cl c, cid (lf o cl c) = cid c.
Proof.
  intros. unfold lf. destruct (local o cl c) as [[c' r]|] eqn:E; auto.
  eapply cid_local; eauto.
Qed.


(* ---------- every section preserves the per-consumer invariant *)
Lemma cinv_put : forall ps x c, cinv false ps c -> cinv false (ps ++ [x]) (c_put x c).
Proof.
  intros ps x c (Hle & Hs & H).
  assert (L : csub c <= length (ps ++ [x])) by (rewrite app_length; simpl; lia).
  unfold cinv, c_put, registered, pend, single_recv in *.
  destruct (cph c) eqn:P; simpl in *; rewrite ?P; simpl;
    (split; [exact L|]); (split; [exact Hs|]).
  - destruct H as (Ho & _ & Hb & Hr). rewrite Hb; simpl. split; auto.
    split; [left; discriminate|]. rewrite skipn_snoc by lia. rewrite Hr. reflexivity.
  - destruct H as (Ho & _ & Hr). split; auto.
    split; [left; destruct (cbuf c); discriminate|].
    rewrite skipn_snoc by lia. rewrite <- Hr, app_assoc. reflexivity.
  - destruct H as (Ho & Hk & Hb & Hr). repeat split; auto.
    + destruct (cbuf c); discriminate.
    + rewrite skipn_snoc by lia. rewrite <- Hr, app_assoc. reflexivity.
  - destruct H as (Ho & Hk & Hr). repeat split; auto.
    rewrite skipn_snoc by lia. rewrite <- Hr, app_assoc. reflexivity.
  - destruct H as (Ho & Hk & Hr). repeat split; auto.
    rewrite skipn_snoc by lia. rewrite <- Hr, app_assoc. reflexivity.
  - destruct (cout c); auto.
    + destruct H as (Hk & Hr & Hn). repeat split; auto.
      rewrite nth_error_app1; auto. apply nth_error_Some. congruence.
    + destruct H as (_ & F & _). discriminate.
    + destruct H as (_ & F & _). discriminate.
    + destruct H as (rest & Hr). exists (rest ++ [x]).
      rewrite skipn_snoc by lia. rewrite <- Hr, app_assoc. reflexivity.
    + destruct H as (Hk & rest & Hr). split; auto. exists (rest ++ [x]).
      rewrite skipn_snoc by lia. rewrite <- Hr, app_assoc. reflexivity.
Qed.

Lemma cinv_close : forall ps c, cinv false ps c -> cinv true ps (wake c).
Proof.
  intros ps c (Hle & Hs & H).
  unfold cinv, wake, registered, single_recv in *.
  destruct (cph c) eqn:P; simpl; rewrite ?P; simpl; (split; [auto|]); (split; [auto|]).
  - destruct H as (Ho & _ & Hb & Hr). repeat split; auto. rewrite Hb, app_nil_r. auto.
  - destruct H as (Ho & _ & Hr); auto.
  - auto.
  - auto.
  - auto.
  - destruct (cout c); auto.
    + destruct H as (_ & F & _). discriminate.
    + destruct H as (_ & F & _). discriminate.
Qed.

Lemma cinv_local : forall o cl ps c c' r,
  cinv cl ps c -> local o cl c = Some (c', r) -> cinv cl ps c'.
Proof.
  intros o cl ps c c' r (Hle & Hs & H) L.
  unfold local in L.
  destruct o; try discriminate;
  destruct (cph c) eqn:P; try discriminate;
  destruct (ckind c) eqn:K; try discriminate;
  unfold single_resume, iter_loop, iter_wake, yield_head, finish, set_ph in L;
  try (destruct (cbuf c) as [|x b] eqn:B);
  try (destruct cl eqn:C);
  inversion L; subst c' r; clear L;
  unfold cinv, pend, single_recv in *; simpl; rewrite ?P, ?K in *; simpl in *;
  (split; [auto|]); (split; [try (intros; discriminate); auto|]).
  all: try (destruct H as (Ho & H); rewrite Ho in Hs).
  all: try (assert (Hr0 : crecv c = []) by (apply Hs; reflexivity); rewrite Hr0 in *; simpl in * ).
  all: repeat match goal with
       | H : _ /\ _ |- _ => destruct H
       | H : _ \/ _ |- _ => destruct H
       end; try congruence; try discriminate.
  all: rewrite ?app_nil_r in *.
  all: try (repeat split; auto; fail).
  all: try (repeat split; auto; rewrite <- app_assoc; auto; fail).
  all: try (repeat split; auto; eapply skipn_cons_nth; eauto; fail).
  all: try (eexists; eauto; fail).
  all: try (exists []; rewrite app_nil_r; auto; fail).
  all: try (split; auto; eexists; eauto; fail).
  all: try (split; auto; exists []; rewrite app_nil_r; auto; fail).
  all: try (repeat split; auto; discriminate).
Qed.

Lemma cinv_lf : forall o cl ps c, cinv cl ps c -> cinv cl ps (lf o cl c).
Proof.
  intros. unfold lf. destruct (local o cl c) as [[c' r]|] eqn:E; auto.
  eapply cinv_local; eauto.
Qed.

Lemma Inv_init : Inv init.
Proof. split; simpl; constructor. Qed.

Definition is_local (o : op) (i : nat) : Prop :=
  o = Resume i \/ o = Next i \/ o = Fault i \/ o = Leave i \/ o = Finalise i.

Lemma step_local_shape : forall s o i, is_local o i ->
  step s o =
  match find i (conss s) with
  | None => (s, RDisabled)
  | Some c =>
      match local o (closed s) c with
      | None => (s, RDisabled)
      | Some (_, r) => (mkS (closed s) (puts s) (upd i (lf o (closed s)) (conss s)), r)
      end
  end.
Proof. intros s o i [H | [H | [H | [H | H]]]]; subst o; reflexivity. Qed.

Lemma Inv_upd : forall s o i,
  Inv s -> Inv (mkS (closed s) (puts s) (upd i (lf o (closed s)) (conss s))).
Proof.
  intros s o i [Hn Hf]. split; simpl.
  - unfold upd. rewrite map_cid_map; auto.
    intros c. destruct (cid c =? i); auto. apply cid_lf.
  - unfold upd. apply Forall_map. eapply Forall_impl; [|exact Hf].
    intros c Hc. simpl. destruct (cid c =? i); auto. apply cinv_lf; auto.
Qed.

Lemma NoDup_snoc : forall (l : list nat) i, NoDup l -> ~ In i l -> NoDup (l ++ [i]).
Proof.
  induction l; simpl; intros.
  - constructor; auto.
  - inversion H; subst. constructor.
    + intro F. apply in_app_or in F. destruct F as [F | [F | []]]; auto.
    + apply IHl; auto.
Qed.

Lemma Inv_step : forall s o, Inv s -> Inv (fst (step s o)).
Proof.
  intros s o HI.
  assert (HL : forall i, is_local o i -> Inv (fst (step s o))).
  { intros i Ho. rewrite (step_local_shape s o i Ho).
    destruct (find i (conss s)) as [c|]; auto.
    destruct (local o (closed s) c) as [[c' r]|]; auto. simpl. apply Inv_upd; auto. }
  destruct o; try (apply (HL i); unfold is_local; tauto).
  - (* Put *)
    simpl. destruct (closed s) eqn:C; auto. destruct HI as [Hn Hf]. split; simpl.
    + rewrite map_cid_map; auto. apply cid_c_put.
    + apply Forall_map. eapply Forall_impl; [|exact Hf]. rewrite C.
      intros c Hc. apply cinv_put; auto.
  - (* Close *)
    simpl. destruct (closed s) eqn:C; auto. destruct HI as [Hn Hf]. split; simpl.
    + rewrite map_cid_map; auto. apply cid_wake.
    + apply Forall_map. eapply Forall_impl; [|exact Hf]. rewrite C.
      intros c Hc. apply cinv_close; auto.
  - (* Sub *)
    simpl. destruct (find i (conss s)) eqn:F; auto.
    apply find_none_notin in F. destruct HI as [Hn Hf].
    assert (SK : skipn (length (puts s)) (puts s) = []) by apply skipn_all.
    destruct (closed s) eqn:C; [destruct k|]; split; simpl;
      try (rewrite map_app; simpl; apply NoDup_snoc; auto);
      apply Forall_app; (split; [auto|]);
      constructor; auto; unfold cinv, pend, single_recv; simpl; rewrite ?SK;
      repeat split; auto; intros; discriminate.
Qed.

Lemma Inv_run : forall tr s, Inv s -> Inv (run s tr).
Proof. induction tr; simpl; intros; auto. apply IHtr. apply Inv_step; auto. Qed.

Lemma Inv_reachable : forall s, reachable s -> Inv s.
Proof. intros s [tr ->]. apply Inv_run. apply Inv_init. Qed.

Lemma reach_cinv : forall s c, reachable s -> In c (conss s) -> cinv (closed s) (puts s) c.
Proof.
  intros s c R I. apply Inv_reachable in R. destruct R as [_ F].
  rewrite Forall_forall in F. auto.
Qed.

Lemma reachable_step : forall s o, reachable s -> reachable (fst (step s o)).
Proof.
  intros s o [tr ->]. exists (tr ++ [o]).
  assert (G : forall tr s, run s (tr ++ [o]) = fst (step (run s tr) o)).
  { clear. induction tr; simpl; intros; auto. }
  rewrite G. reflexivity.
Qed.

Arguments find : simpl never.
Arguments upd : simpl never.

(* ================= C11 theorems ================= *)

(* broadcast: what a subscribed consumer has received, followed by what waits in its private
   buffer, is exactly the sequence of messages put since it subscribed: nothing lost,
   duplicated or reordered -- whatever the other consumers and the faults did *)
Theorem broadcast_exact_thm : forall s c,
  reachable s -> In c (conss s) -> registered c = true ->
  crecv c ++ cbuf c = skipn (csub c) (puts s).
Proof.
  intros s c R I G. pose proof (reach_cinv s c R I) as (_ & _ & H).
  unfold registered in G. destruct (cph c); try discriminate; unfold pend in H.
  - destruct H as (_ & _ & B & Hr). rewrite B, app_nil_r. auto.
  - tauto.
  - tauto.
  - tauto.
  - tauto.
Qed.

(* a consumer that is gone received a prefix of them and nothing else *)
Theorem received_prefix_thm : forall s c,
  reachable s -> In c (conss s) ->
  exists rest, crecv c ++ rest = skipn (csub c) (puts s).
Proof.
  intros s c R I. destruct (registered c) eqn:G.
  - exists (cbuf c). apply broadcast_exact_thm; auto.
  - pose proof (reach_cinv s c R I) as (_ & _ & H).
    unfold registered in G. destruct (cph c); try discriminate. unfold pend in H.
    destruct (cout c); try contradiction.
    + destruct H as (_ & Hr & Hn). rewrite Hr.
      assert (csub c < length (puts s)) by (apply nth_error_Some; congruence).
      destruct (skipn (csub c) (puts s)) as [|y r] eqn:E.
      * apply (f_equal (@length Z)) in E. rewrite skipn_length in E. simpl in E. lia.
      * apply skipn_cons_nth in E. exists r. simpl. congruence.
    + destruct H as (_ & _ & Hr & Hp). exists []. rewrite Hr, Hp. reflexivity.
    + destruct H as (_ & _ & Hr). exists []. rewrite app_nil_r. auto.
    + auto.
    + tauto.
Qed.

(* no lost wake-up: a consumer sleeping un-woken has nothing to receive and the stream is open *)
Theorem sleeping_has_nothing_thm : forall s c,
  reachable s -> In c (conss s) -> cph c = Waiting ->
  cbuf c = [] /\ closed s = false /\ crecv c = skipn (csub c) (puts s).
Proof.
  intros s c R I P. pose proof (reach_cinv s c R I) as (_ & _ & H).
  rewrite P in H. tauto.
Qed.

(* a consumer that was woken has something to receive or the stream is closed: the
   `buffer[0]` of Channel.__await__ cannot raise IndexError *)
Theorem woken_has_reason_thm : forall s c,
  reachable s -> In c (conss s) -> cph c = Woken -> cbuf c <> [] \/ closed s = true.
Proof.
  intros s c R I P. pose proof (reach_cinv s c R I) as (_ & _ & H).
  rewrite P in H. tauto.
Qed.

(* `await channel`: returns the first message put after it started waiting; raises
   StreamClosed only if the channel is closed and nothing was put meanwhile; a consumer
   removed by a fault received nothing; no other ending exists *)
Theorem single_get_first_thm : forall s c,
  reachable s -> In c (conss s) -> ckind c = Single -> cph c = Done ->
  match cout c with
  | OGot x => crecv c = [x] /\ nth_error (puts s) (csub c) = Some x
  | OClosed => crecv c = [] /\ closed s = true /\ skipn (csub c) (puts s) = []
  | OFault => crecv c = []
  | _ => False
  end.
Proof.
  intros s c R I K P. pose proof (reach_cinv s c R I) as (_ & Hs & H).
  rewrite P in H. unfold pend, single_recv in *. specialize (Hs K).
  destruct (cout c); try tauto; try (destruct H; congruence).
Qed.

(* after close: pending messages are still delivered, then iteration ends -- an iterating
   consumer whose loop ended normally has received EVERY message put since it subscribed,
   and the stream is closed *)
Theorem close_then_end_thm : forall s c,
  reachable s -> In c (conss s) -> cout c = OEnded ->
  ckind c = Iter /\ closed s = true /\ crecv c = skipn (csub c) (puts s).
Proof.
  intros s c R I O. pose proof (reach_cinv s c R I) as (_ & _ & H).
  rewrite O in H. unfold pend in H.
  destruct (cph c); try (destruct H; discriminate). auto.
Qed.

Lemma step_closed_puts : forall s o, closed s = true ->
  closed (fst (step s o)) = true /\ puts (fst (step s o)) = puts s.
Proof.
  intros s o C.
  assert (HL : forall i, is_local o i ->
    closed (fst (step s o)) = true /\ puts (fst (step s o)) = puts s).
  { intros i Ho. rewrite (step_local_shape s o i Ho).
    destruct (find i (conss s)) as [c|]; auto.
    destruct (local o (closed s) c) as [[c' r]|]; auto. }
  destruct o; try (apply (HL i); unfold is_local; tauto); simpl; rewrite ?C; auto.
  destruct (find i (conss s)); auto. destruct k; auto.
Qed.

(* ... a put on a closed channel raises and changes nothing; close is idempotent;
   a new `await channel` raises; no further message is ever accepted *)
Theorem closed_rejects_thm : forall s, closed s = true ->
  (forall x, step s (Put x) = (s, RRaised)) /\
  step s Close = (s, RNone) /\
  (forall i, find i (conss s) = None -> snd (step s (Sub i Single)) = RRaised) /\
  (forall i, find i (conss s) = None -> snd (step s (Sub i Iter)) = REnded) /\
  (forall o, closed (fst (step s o)) = true /\ puts (fst (step s o)) = puts s).
Proof.
  intros s C. split; [|split; [|split; [|split]]]; intros; simpl; rewrite ?C; auto;
    try (rewrite H; reflexivity).
  apply step_closed_puts; auto.
Qed.

(* ... and what a still-subscribed iterating consumer gets on a closed channel: the messages
   still in its buffer, one per (postponement, pop), in order, then the end *)
Theorem closed_drains_thm : forall s c i, closed s = true ->
  find i (conss s) = Some c -> ckind c = Iter ->
  (cph c = Woken ->
     snd (step s (Resume i)) = match cbuf c with x :: _ => RYield x | [] => REnded end) /\
  (cph c = Body ->
     snd (step s (Next i)) = match cbuf c with _ :: _ => RPostpone | [] => REnded end) /\
  (cph c = Postponed ->
     snd (step s (Resume i)) = match cbuf c with x :: _ => RYield x | [] => RError end).
Proof.
  intros s c i C F K. repeat split; intros P; simpl; rewrite F; unfold local; rewrite P, K;
    unfold iter_wake, iter_loop, yield_head; rewrite ?C; destruct (cbuf c); reflexivity.
Qed.

(* a consumer suspended in its postponement has a non-empty buffer: the pop cannot fail *)
Theorem postponed_has_message_thm : forall s c,
  reachable s -> In c (conss s) -> cph c = Postponed -> cbuf c <> [].
Proof.
  intros s c R I P. pose proof (reach_cinv s c R I) as (_ & _ & H).
  rewrite P in H. tauto.
Qed.

(* isolation: a section performed by (or a fault hitting) consumer i -- subscribing,
   resuming, leaving by any route, being finalised -- changes nothing of any other
   consumer: not its buffer, not its received sequence, not its phase; nor the channel *)
Theorem isolation_thm : forall s o i j,
  actor o = Some i -> j <> i ->
  find j (conss (fst (step s o))) = find j (conss s) /\
  closed (fst (step s o)) = closed s /\ puts (fst (step s o)) = puts s.
Proof.
  intros s o i j A N.
  assert (HL : is_local o i ->
    find j (conss (fst (step s o))) = find j (conss s) /\
    closed (fst (step s o)) = closed s /\ puts (fst (step s o)) = puts s).
  { intros Ho. rewrite (step_local_shape s o i Ho).
    destruct (find i (conss s)) as [c|]; auto.
    destruct (local o (closed s) c) as [[c' r]|]; auto. simpl.
    rewrite find_upd by (intros; apply cid_lf).
    apply Nat.eqb_neq in N. rewrite N. auto. }
  destruct o; simpl in A; inversion A; subst;
    try (apply HL; unfold is_local; tauto).
  simpl. destruct (find i (conss s)) eqn:F; auto.
  destruct (closed s) eqn:C; [destruct k|]; simpl; rewrite find_snoc; simpl;
    (destruct (find j (conss s)); [auto|]);
    (destruct (i =? j) eqn:E; [apply Nat.eqb_eq in E; congruence | auto]).
Qed.

(* independence: the whole history of consumer j (its record at every moment: buffer,
   received sequence, phase, outcome) is a function of the puts, the closes and its own
   sections only -- erase every section of every other consumer from the run and j sees
   exactly the same.  "independent of how many other consumers exist or how fast they are" *)
Definition relevant (j : nat) (o : op) : bool :=
  match actor o with None => true | Some i => i =? j end.

Definition view (j : nat) (s : state) := (closed s, puts s, find j (conss s)).

Lemma step_relevant : forall j o s1 s2, relevant j o = true -> view j s1 = view j s2 ->
  view j (fst (step s1 o)) = view j (fst (step s2 o)) /\ snd (step s1 o) = snd (step s2 o).
Proof.
  unfold view. intros j o s1 s2 Rl V. inversion V as [[Vc Vp Vf]]. clear V.
  assert (HL : is_local o j ->
    (closed (fst (step s1 o)), puts (fst (step s1 o)), find j (conss (fst (step s1 o)))) =
    (closed (fst (step s2 o)), puts (fst (step s2 o)), find j (conss (fst (step s2 o)))) /\
    snd (step s1 o) = snd (step s2 o)).
  { intros Ho. rewrite (step_local_shape s1 o j Ho), (step_local_shape s2 o j Ho).
    rewrite Vf, Vc. destruct (find j (conss s2)) as [c|] eqn:F; simpl; [|rewrite Vc, Vp, Vf, F; auto].
    destruct (local o (closed s2) c) as [[c' r]|]; simpl; [|rewrite Vc, Vp, Vf, F; auto].
    rewrite !find_upd by (intros; apply cid_lf). rewrite Nat.eqb_refl, Vf, F, Vp. auto. }
  destruct o; unfold relevant in Rl; simpl in Rl;
    try (apply Nat.eqb_eq in Rl; subst i; apply HL; unfold is_local; tauto).
  - simpl. rewrite Vc. destruct (closed s2) eqn:C2; simpl; [rewrite Vc, C2, Vp, Vf; auto|].
    rewrite !find_map by apply cid_c_put. rewrite Vp, Vf. auto.
  - simpl. rewrite Vc. destruct (closed s2) eqn:C2; simpl; [rewrite Vc, C2, Vp, Vf; auto|].
    rewrite !find_map by apply cid_wake. rewrite Vp, Vf. auto.
  - apply Nat.eqb_eq in Rl. subst i. simpl. rewrite Vf, Vc, Vp.
    destruct (find j (conss s2)) eqn:F; simpl; [rewrite Vc, Vp, Vf, F; auto|].
    destruct (closed s2); [destruct k|]; simpl; rewrite !find_snoc, Vf, F; simpl;
      rewrite Nat.eqb_refl; auto.
Qed.

Theorem independence_thm : forall j tr s1 s2, view j s1 = view j s2 ->
  view j (run s1 tr) = view j (run s2 (filter (relevant j) tr)).
Proof.
  induction tr; simpl; intros; auto.
  destruct (relevant j a) eqn:Rl; simpl.
  - apply IHtr. apply step_relevant; auto.
  - apply IHtr. rewrite <- H. unfold relevant in Rl.
    destruct (actor a) as [i|] eqn:A; try discriminate. apply Nat.eqb_neq in Rl.
    destruct (isolation_thm s1 a i j A) as (E1 & E2 & E3); auto.
    unfold view. rewrite E1, E2, E3. reflexivity.
Qed.

(* the results consumer j sees from its own sections are the same in the erased run *)
Fixpoint outs_of (j : nat) (s : state) (tr : list op) : list out :=
  match tr with
  | [] => []
  | o :: tr' =>
      (if match actor o with Some i => i =? j | None => false end then [snd (step s o)] else [])
      ++ outs_of j (fst (step s o)) tr'
  end.

Theorem independence_outs_thm : forall j tr s1 s2, view j s1 = view j s2 ->
  outs_of j s1 tr = outs_of j s2 (filter (relevant j) tr).
Proof.
  induction tr; simpl; intros; auto.
  unfold relevant at 1. destruct (actor a) as [i|] eqn:A; simpl.
  - destruct (i =? j) eqn:E; simpl.
    + rewrite A, E. assert (Rl : relevant j a = true) by (unfold relevant; rewrite A; auto).
      destruct (step_relevant j a s1 s2 Rl H) as (V & O). rewrite O. simpl. f_equal. apply IHtr; auto.
    + apply IHtr. rewrite <- H. apply Nat.eqb_neq in E.
      destruct (isolation_thm s1 a i j A) as (E1 & E2 & E3); auto.
      unfold view. rewrite E1, E2, E3. reflexivity.
  - rewrite A. simpl. assert (Rl : relevant j a = true) by (unfold relevant; rewrite A; auto).
    destruct (step_relevant j a s1 s2 Rl H) as (V & O). apply IHtr; auto.
Qed.

(* used by the Examples of props/C11.v: an early iterating consumer (0), a late one (1), a single
   get (2) that is cancelled, close with pending messages *)
Definition demo : list op :=
  [Sub 0 Iter; Put 10; Sub 1 Iter; Sub 2 Single; Put 11; Fault 2; Resume 0; Put 12; Close;
   Next 0; Resume 1; Resume 0; Next 1; Next 0; Resume 1; Resume 0; Next 0; Leave 1; Finalise 1].

