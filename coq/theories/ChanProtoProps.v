(* Proofs about ChanProto: for ALL operation sequences of the nondeterministic environment
   (any number of consumers and producers, any timing, faults at any suspension point). *)
Require Import ZArith List Bool Lia.
Import ListNotations.
From Usim Require Import ChanProto.

(* the messages put since consumer c subscribed *)
Definition pend (ps : list Z) (c : cons) : list Z := skipn (csub c) ps.

Definition single_recv (c : cons) : Prop :=
  ckind c = Single -> match cout c with OGot _ => True | _ => crecv c = [] end.

Definition cinv (cl : bool) (ps : list Z) (c : cons) : Prop :=
  csub c <= length ps /\
  single_recv c /\
  match cph c with
  | Waiting => cout c = ONone /\ cl = false /\ cbuf c = [] /\ crecv c = pend ps c
  | Woken => cout c = ONone /\ (cbuf c <> [] \/ cl = true) /\ crecv c ++ cbuf c = pend ps c
  | Body | Abandoned => cout c = ONone /\ ckind c = Iter /\ crecv c ++ cbuf c = pend ps c
  | Done =>
      match cout c with
      | OGot x => ckind c = Single /\ crecv c = [x] /\ nth_error ps (csub c) = Some x
      | OClosed => ckind c = Single /\ cl = true /\ crecv c = [] /\ pend ps c = []
      | OEnded => ckind c = Iter /\ cl = true /\ crecv c = pend ps c
      | OFault | OLeft => exists rest, crecv c ++ rest = pend ps c
      | ONone | OError => False
      end
  end.

Definition Inv (s : state) : Prop :=
  NoDup (map cid (conss s)) /\ Forall (cinv (closed s) (puts s)) (conss s).

(* ---------- list facts *)
Lemma skipn_snoc : forall (A : Type) n (l : list A) x,
  n <= length l -> skipn n (l ++ [x]) = skipn n l ++ [x].
Proof.
  intros. rewrite skipn_app. replace (n - length l) with 0 by lia. reflexivity.
Qed.

Lemma skipn_cons_nth : forall (A : Type) n (l : list A) x r,
  skipn n l = x :: r -> nth_error l n = Some x.
Proof.
  induction n; destruct l; simpl; intros; try discriminate.
  - inversion H; reflexivity.
  - eauto.
Qed.

Lemma find_none_notin : forall i l, find i l = None -> ~ In i (map cid l).
Proof.
  unfold find. induction l; simpl; intros; auto.
  destruct (cid a =? i) eqn:E; try discriminate.
  apply Nat.eqb_neq in E. intros [F | F]; auto. apply IHl; auto.
Qed.

Lemma find_some : forall i l c, find i l = Some c -> In c l /\ cid c = i.
Proof.
  unfold find. intros. apply find_some in H. destruct H. apply Nat.eqb_eq in H0. auto.
Qed.

Lemma find_snoc : forall j l c,
  find j (l ++ [c]) =
  match find j l with Some x => Some x | None => if cid c =? j then Some c else None end.
Proof.
  unfold find. induction l; simpl; intros; auto.
  destruct (cid a =? j); auto.
Qed.

Lemma find_map : forall j (g : cons -> cons) l,
  (forall c, cid (g c) = cid c) -> find j (map g l) = option_map g (find j l).
Proof.
  unfold find. induction l; simpl; intros; auto.
  rewrite H. destruct (cid a =? j); auto.
Qed.

Lemma find_upd : forall j i (f : cons -> cons) l,
  (forall c, cid (f c) = cid c) ->
  find j (upd i f l) = if j =? i then option_map f (find j l) else find j l.
Proof.
  unfold find, upd. induction l; simpl; intros.
  - destruct (j =? i); auto.
  - destruct (cid a =? i) eqn:E.
    + rewrite H. destruct (cid a =? j) eqn:F.
      * apply Nat.eqb_eq in E, F. subst. rewrite Nat.eqb_refl. reflexivity.
      * rewrite IHl; auto.
    + destruct (cid a =? j) eqn:F.
      * apply Nat.eqb_eq in F. subst. rewrite E. reflexivity.
      * rewrite IHl; auto.
Qed.

Lemma map_cid_map : forall (g : cons -> cons) l,
  (forall c, cid (g c) = cid c) -> map cid (map g l) = map cid l.
Proof. intros. rewrite map_map. apply map_ext. auto. Qed.

(* ---------- the sections preserve identities *)
Lemma cid_wake : forall c, cid (wake c) = cid c.
Proof. intros. unfold wake. destruct (cph c); reflexivity. Qed.

Lemma cid_c_put : forall x c, cid (c_put x c) = cid c.
Proof. intros. unfold c_put. destruct (registered c); auto. rewrite cid_wake. reflexivity. Qed.

Lemma cid_local : forall o cl c c' r, local o cl c = Some (c', r) -> cid c' = cid c.
Proof.
  intros. unfold local, iter_loop, single_resume in H.
  destruct o, (cph c), (ckind c); try discriminate;
    repeat (destruct (cbuf c)); try destruct cl; inversion H; reflexivity.
Qed.

Definition lf (o : op) (cl : bool) (c : cons) : cons :=
  match local o cl c with Some (c', _) => c' | None => c end.

Lemma cid_lf : forall o cl c, cid (lf o cl c) = cid c.
Proof.
  intros. unfold lf. destruct (local o cl c) as [[c' r]|] eqn:E; auto.
  eapply cid_local; eauto.
Qed.

