(** usim/_core/handler.py: the thread-local "current loop".
    [StateHandler] is a [threading.local]: every thread has its own [loop] slot, initially [MissingLoop].
    [assign(loop)] saves the slot, installs [loop], and restores the saved value in a [finally].
    Model: per thread a stack of saved slots; the current loop is the head ([None] = MissingLoop). *)
From Coq Require Import List Arith Bool Lia.
Import ListNotations.

Definition thread := nat.
Definition loopid := nat.

(** slot of one thread: current loop and the values saved by the active [assign] contexts *)
Record slot := { cur : option loopid; saved : list (option loopid) }.
Definition slot0 : slot := {| cur := None; saved := [] |}.

Definition hstate := thread -> slot.
Definition hinit : hstate := fun _ => slot0.

Inductive hop :=
| Enter (t : thread) (l : loopid)     (* entering [with __LOOP_STATE__.assign(l)] on thread t *)
| Exit (t : thread).                  (* leaving it, normally or by an exception: the [finally] *)

Definition upd (h : hstate) (t : thread) (s : slot) : hstate :=
  fun t' => if Nat.eqb t' t then s else h t'.

Definition hstep (h : hstate) (o : hop) : hstate :=
  match o with
  | Enter t l => upd h t {| cur := Some l; saved := cur (h t) :: saved (h t) |}
  | Exit t =>
      match saved (h t) with
      | [] => h                                   (* not enabled: no context to leave *)
      | s :: r => upd h t {| cur := s; saved := r |}
      end
  end.

Definition hrun (h : hstate) (ops : list hop) : hstate := fold_left hstep ops h.

Definition op_thread (o : hop) : thread := match o with Enter t _ => t | Exit t => t end.

(** the operations of one thread form a balanced, properly nested sequence (context managers) *)
Fixpoint balanced_from (depth : nat) (ops : list hop) : option nat :=
  match ops with
  | [] => Some depth
  | Enter _ _ :: r => balanced_from (S depth) r
  | Exit _ :: r => match depth with O => None | S d => balanced_from d r end
  end.

(** executable projection used by the correspondence: current loop of a thread after each operation *)
Fixpoint observe (h : hstate) (ops : list hop) : list (option loopid) :=
  match ops with
  | [] => []
  | o :: r => let h' := hstep h o in cur (h' (op_thread o)) :: observe h' r
  end.
