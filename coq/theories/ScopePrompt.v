(** C05, "promptly": the failure of a child of an open scope ends the scope within the time step of that failure.
    Stated over the layer-P scope protocol (ScopeProto.v), for every environment (any interleaving of labels, any
    number of further children, failures, cancellations and foreign signals after the failure).

    [aborting s t]: the scope is on its way out since time [t] - its own cancellation is queued for the owner and the
    owner is still in the block (time cannot advance: Tick is disabled), or the synchronous _close_scope runs at [t],
    or the block was left at [t]. *)
Require Import List Bool Arith.
From Usim Require Import ScopeProto ScopeProtoProps.
Import ListNotations.

Definition aborting (s : state) (t : nat) : Prop :=
  match ph s with
  | Exited _ _ => exited_at s = Some t
  | Closing _ => now s = t
  | _ => now s = t /\ cs s = Scheduled
  end.

Lemma aborting_step : forall s l s' t, aborting s t -> step s l = Some s' -> aborting s' t.
Proof.
  intros s l s' t A H. unfold aborting in *. revert A.
  destruct l; inv_step H; unfold sched_cs; simpl in *;
    repeat match goal with
    | |- context [interruptable ?z] => destruct (interruptable z)
    | |- context [existsb pending_nv ?z] => destruct (existsb pending_nv z)
    end; simpl in *;
    repeat match goal with
    | E : ph ?z = _ |- context [ph ?z] => rewrite E
    end; simpl;
    try match goal with |- context [ph ?z] => destruct (ph z) eqn:? end;
    simpl in *; try discriminate; try congruence; auto;
    intros A; try (destruct A; congruence); try (destruct A; split; congruence).
Qed.

Lemma aborting_run : forall ls s s' t, aborting s t -> run s ls = Some s' -> aborting s' t.
Proof.
  induction ls; simpl; intros s s' t A H.
  - inversion H; subst; auto.
  - destruct (step s a) eqn:E; [|discriminate]. eapply IHls; [eapply aborting_step; eauto|exact H].
Qed.

(** while the scope is on its way out and not yet left, virtual time stands still *)
Lemma aborting_no_tick : forall s t, aborting s t -> isexited (ph s) = false -> step s Tick = None.
Proof.
  intros s t A E. unfold aborting in A. simpl.
  destruct (ph s); simpl in *; try discriminate; auto; destruct A as [_ C]; rewrite C; reflexivity.
Qed.

(** the failure of a running child of a scope that is still open ([interruptable] = the block is in its body or in
    its graceful shutdown) queues the owner's cancellation *)
Lemma child_fail_aborting : forall k s i s1, reachable k s -> interruptable s = true ->
  step s (ChildFail i) = Some s1 -> aborting s1 (now s) /\ isexited (ph s1) = false.
Proof.
  intros k s i s1 R I H. pose proof (reachable_inv _ _ R) as V.
  pose proof (i_int _ V) as A. rewrite I in A.
  inv_step H; unfold aborting; simpl in *; unfold sched_cs; simpl; rewrite I; simpl;
    destruct (ph s); simpl in *; try discriminate; auto.
Qed.

Theorem child_failure_prompt_thm : forall k s i s1 ls s2, reachable k s -> interruptable s = true ->
  step s (ChildFail i) = Some s1 -> run s1 ls = Some s2 ->
  (isexited (ph s2) = false /\ now s2 = now s /\ step s2 Tick = None) \/
  (exists c o, ph s2 = Exited c o /\ exited_at s2 = Some (now s)).
Proof.
  intros k s i s1 ls s2 R I H1 H2.
  destruct (child_fail_aborting _ _ _ _ R I H1) as [A _].
  pose proof (aborting_run _ _ _ _ A H2) as A2.
  destruct (isexited (ph s2)) eqn:E.
  - right. unfold aborting in A2. destruct (ph s2); simpl in *; try discriminate. eauto.
  - left. split; auto. split; [|eapply aborting_no_tick; eauto].
    unfold aborting in A2. destruct (ph s2); simpl in *; try discriminate; tauto.
Qed.

(** the failed child is then reported: when the block is left for its own cancellation (or gracefully, or for its
    until-notification) the outcome is the children's failure *)
Lemma failed_stays : forall s l s' i x, step s l = Some s' -> nth_error (kids s) i = Some x -> isfailed x = true ->
  exists x', nth_error (kids s') i = Some x' /\ isfailed x' = true.
Proof.
  intros s l s' i x H N F.
  assert (D : isdone x = true) by (unfold isfailed, isdone in *; destruct (st x); auto; discriminate).
  destruct (done_stable _ _ _ _ _ H N D) as (x'&N'&S'&_). exists x'. split; auto.
  unfold isfailed in *. rewrite S'. exact F.
Qed.

Lemma failed_stays_run : forall ls s s' i x, run s ls = Some s' -> nth_error (kids s) i = Some x -> isfailed x = true ->
  exists x', nth_error (kids s') i = Some x' /\ isfailed x' = true.
Proof.
  induction ls; simpl; intros s s' i x H N F.
  - inversion H; subst; eauto.
  - destruct (step s a) eqn:E; [|discriminate].
    destruct (failed_stays _ _ _ _ _ E N F) as (x1&N1&F1). eapply IHls; eauto.
Qed.

Theorem child_failure_reported_thm : forall k s i s1 ls s2 c o, reachable k s ->
  step s (ChildFail i) = Some s1 -> run s1 ls = Some s2 -> ph s2 = Exited c o ->
  o = outcome_of c true.
Proof.
  intros k s i s1 ls s2 c o R H1 H2 P.
  assert (R2 : reachable k s2) by (eapply reachable_run; [eapply r_step; eauto|exact H2]).
  pose proof (i_out _ (reachable_inv _ _ R2)) as O. unfold oinv in O. rewrite P in O. subst o. f_equal.
  assert (exists x, nth_error (kids s1) i = Some x /\ isfailed x = true) as (x&N&F).
  { clear - H1. unfold step, on_child, running_only in H1.
    destruct (isclosing (ph s)); [discriminate|].
    destruct (nth_error (kids s) i) as [c0|] eqn:N; [|discriminate].
    destruct (st c0); try discriminate. inversion H1; subst s1; clear H1.
    exists (fin Failed c0). split; [|reflexivity].
    simpl. rewrite kids_sched_cs. simpl. rewrite nth_error_upd, Nat.eqb_refl, N. reflexivity. }
  destruct (failed_stays_run _ _ _ _ _ H2 N F) as (x'&N'&F').
  eapply existsb_nth; eauto.
Qed.

(** both halves together with containment: whenever the block has been left after a child of the open scope failed, it
    was left at the time of that failure, every child is finished (the remaining ones were aborted within that time
    step: time did not advance in between), no child can take another step, and the failure is part of the outcome *)
Theorem first_failure_aborts_all_thm : forall k s i s1 ls s2 c o, reachable k s -> interruptable s = true ->
  step s (ChildFail i) = Some s1 -> run s1 ls = Some s2 -> ph s2 = Exited c o ->
  exited_at s2 = Some (now s) /\ o = outcome_of c true /\
  Forall (fun x => isdone x = true) (kids s2) /\
  (forall j, step s2 (ChildStart j) = None /\ step s2 (ChildStep j) = None).
Proof.
  intros k s i s1 ls s2 c o R I H1 H2 P.
  assert (R2 : reachable k s2) by (eapply reachable_run; [eapply r_step; eauto|exact H2]).
  destruct (child_failure_prompt_thm _ _ _ _ _ _ R I H1 H2) as [(E&_)|(c'&o'&P'&X)].
  - rewrite P in E. discriminate.
  - split; [exact X|]. split; [exact (child_failure_reported_thm _ _ _ _ _ _ _ _ R H1 H2 P)|].
    destruct (contained_thm _ _ _ _ R2 P) as (D&N&_). split; [exact D|].
    intros j. destruct (N j) as (A&B&_). split; assumption.
Qed.

(** non-vacuity: a child fails at time 2 while the body is suspended; a second child runs on, the owner is
    cancelled, closes the second child and leaves at time 2 with the children's failure *)
Example prompt_example :
  exists s s1 s2, reachable Plain s /\ interruptable s = true /\ now s = 2 /\
    step s (ChildFail 0) = Some s1 /\
    run s1 [ChildStep 1; DeliverCancelSelf; CloseChild 1 false; FinishClose] = Some s2 /\
    ph s2 = Exited COwnCancel ChildExc /\ exited_at s2 = Some 2.
Proof.
  destruct (run (init Plain) [Spawn false; Spawn false; ChildStart 0; ChildStart 1; BodyStep; Tick; Tick]) as [s|] eqn:E;
    [|vm_compute in E; discriminate].
  exists s. vm_compute in E. inversion E; subst s. clear E.
  eexists. eexists. split; [|split; [reflexivity|split; [reflexivity|split; [reflexivity|split; [vm_compute; reflexivity|split; reflexivity]]]]].
  eapply (reachable_of_run Plain [Spawn false; Spawn false; ChildStart 0; ChildStart 1; BodyStep; Tick; Tick]).
  vm_compute. reflexivity.
Qed.
