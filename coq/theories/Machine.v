(** The whole-program model: an executable, deterministic interpreter in which usim's library
    routines are transcribed as coroutine programs ([prog]) running on the kernel of Kernel.v.

    - [prog] is a small coroutine language: return / raise / atomic primitive on the object state /
      hibernate (the only suspension: [yield Hibernate]) / bind / catch / loop / close another
      coroutine / choose the continuation from the current state.
    - A primitive ([primfn]) changes the object state and *requests* kernel operations; the stepper
      applies the requests with [kapply].  The kernel is therefore only ever changed through the
      operations of Kernel.v, and the theorems proved there for arbitrary clients apply.
    - One machine step = pop the next activation and run its target until it hibernates or ends,
      exactly like [Loop._run_coroutine].
    Library routines are transcribed in Lib.v, the scenario language is compiled in Scenario.v. *)
From Coq Require Import ZArith List Bool Lia.
From RecordUpdate Require Import RecordSet.
From Usim Require Import XTime Tables Kernel.
Import ListNotations.
Import RecordSetNotations.

Definition nid := nat.   (* notification object *)
Definition tid := nat.   (* task object *)
Definition scid := nat.  (* scope object *)

(** what an Interrupt instance is for *)
Inductive sigkind :=
| SKWake                              (* private wake-up of postpone / suspend / a subscription *)
| SKCancelTask (t : tid) (tok : Z)    (* CancelTask(task, token) *)
| SKCancelScope (sc : scid)           (* Scope._cancel_self *)
| SKUntil (sc : scid).                (* InterruptScope._interrupt *)

Inductive exn :=
| EUser (cls : nat) (serial : nat)    (* an exception raised by scenario code; serial = object identity *)
| ESig (s : sid)                      (* an Interrupt instance thrown into a coroutine *)
| EGenExit
| ETaskCancelled (t : tid) (tok : Z)
| ETaskClosed (sc : scid) | EVolatileClosed (sc : scid)
| EStreamClosed (q : nat)
| EConcurrent (l : list exn)
| EScopeClosed | EResUnavailable | EIntervalExceeded | EValueError | EAssertion
| ERuntime (code : nat)               (* coroutine misuse: 1 ignored GeneratorExit, 2 already executing, 3 reuse *)
| EActivityLeak
| EBreak.                             (* not an exception: `break` of a scenario loop *)

Inductive val :=
| VU | VZ (z : Z) | VN (n : nat) | VB (b : bool) | VX (t : xtime)
| VCont (v : val) | VBreak (v : val)
| VYield (v : val) | VEnd.             (* results of an async generator step: a value / StopAsyncIteration *)

Definition vnat (v : val) : nat := match v with VN n => n | _ => 0 end.
Definition vbool (v : val) : bool := match v with VB b => b | _ => false end.

(** ** object state (everything but coroutine stacks) *)

Inductive nkind :=
| NPlain
| NFlag (f : nat) | NInvFlag (f : nat)
| NAfter (d : xtime) | NBefore (d : xtime) | NMoment (d : xtime) (after : nid)
| NEternity | NInstant
| NDelay (d : xtime)
| NCmp (v : nat) (op : cmpop) (rhs : Z)
| NCmp2 (v : nat) (op : cmpop) (v2 : nat)
| NDone (t : tid) | NNotDone (t : tid)
| NAll (cs : list nid) | NAny (cs : list nid).

Record notif := { nk : nkind; waiting : list (aid * sid); trig : bool }.
Record flagrec := { fval : bool; fnid : nid; finv : nid }.
Record trackrec := { tval : Z; tlisteners : list nid }.
Inductive outcome := OVal (v : val) | OExn (e : exn).
Record taskrec := {
  t_name : nat; t_parent : scid; t_volatile : bool; t_result : option outcome;
  t_runner : aid; t_done : nid; t_notdone : nid; t_doneval : bool; t_cancels : list sid }.
Record scoperec := {
  s_owner : aid; s_children : list tid; s_volatile : list tid; s_failures : list exn;
  s_bodydone : nat; s_interruptable : bool; s_cancel : sid; s_until : option (nid * sid);
  s_env : bool (* EnvironmentScope: unused by the native scenarios *) }.
Record lockrec := { l_owner : option aid; l_depth : Z; l_notif : nid }.
Record queuerec := { q_buf : list Z; q_notif : nid; q_mutex : nat; q_closed : bool }.
Record chanrec := { c_bufs : list (nat * list Z); c_notif : nid; c_closed : bool; c_next : nat }.
Record resrec := { r_parent : option nat; r_debits : list Z; r_avail : nat (* tracked index *) }.

Inductive actstat := AsNew | AsSusp | AsRun | AsDead.

Record objs := mkObjs {
  kern : loop;
  sigs : list sigkind;
  astat : list actstat;
  notifs : list notif;
  flags : list flagrec;
  tracked : list trackrec;
  tasks : list taskrec;
  scopes : list scoperec;
  locks : list lockrec;
  queues : list queuerec;
  chans : list chanrec;
  ress : list resrec;
  tnames : list (nat * tid);
  snames : list (nat * scid);
  trace : list (list Z);
  serial : nat;
  closing : nat       (* number of coroutines currently being closed ([coroutine.close()] contexts on the call stack) *)
}.
#[export] Instance eta_objs : Settable _ :=
  settable! mkObjs <kern; sigs; astat; notifs; flags; tracked; tasks; scopes; locks; queues; chans; ress;
                    tnames; snames; trace; serial; closing>.
#[export] Instance eta_notif : Settable _ := settable! Build_notif <nk; waiting; trig>.
#[export] Instance eta_flag : Settable _ := settable! Build_flagrec <fval; fnid; finv>.
#[export] Instance eta_track : Settable _ := settable! Build_trackrec <tval; tlisteners>.
#[export] Instance eta_task : Settable _ :=
  settable! Build_taskrec <t_name; t_parent; t_volatile; t_result; t_runner; t_done; t_notdone; t_doneval; t_cancels>.
#[export] Instance eta_scope : Settable _ :=
  settable! Build_scoperec <s_owner; s_children; s_volatile; s_failures; s_bodydone; s_interruptable; s_cancel; s_until; s_env>.
#[export] Instance eta_lock : Settable _ := settable! Build_lockrec <l_owner; l_depth; l_notif>.
#[export] Instance eta_queue : Settable _ := settable! Build_queuerec <q_buf; q_notif; q_mutex; q_closed>.
#[export] Instance eta_chan : Settable _ := settable! Build_chanrec <c_bufs; c_notif; c_closed; c_next>.
#[export] Instance eta_res : Settable _ := settable! Build_resrec <r_parent; r_debits; r_avail>.

(** ** coroutine programs *)

Inductive prog :=
| Ret (v : val)
| Raise (e : exn)
| Prim (f : objs -> aid -> pres) (k : val -> prog)
| Hib                                     (* yield Hibernate: VU when resumed by send, raises when thrown into *)
| Bind (p : prog) (k : val -> prog)
| Catch (p : prog) (h : exn -> prog)
| LoopS (s : val) (body : val -> prog)    (* body returns VCont s' (again) or VBreak v (leave with v) *)
| CloseAct (a : aid)                      (* coroutine.close() of another activity, synchronously *)
| Dyn (f : objs -> aid -> prog)           (* continue with a program chosen from the current state *)
| GenNew (body : prog)                    (* create an async generator object; returns VN g *)
| GenNext (g : nat)                       (* __anext__: run it until it yields (VYield v) or ends (VEnd) *)
| Yield (v : val)                         (* inside a generator body: hand v to the consumer *)
| GenClose (g : nat)                      (* finalisation of an abandoned generator: GeneratorExit at its yield *)
with pres :=
| mkpres (o : objs) (ops : list kop) (spawn : list (aid * prog)) (r : val + exn).

Definition primfn := objs -> aid -> pres.

Inductive frame :=
| FBind (k : val -> prog) | FCatch (h : exn -> prog) | FLoop (body : val -> prog)
| FGenMark (g : nat)      (* below: the consumer that called __anext__; above: the generator's frames *)
| FGenClose (g : nat).    (* same, while the generator is being finalised *)

Inductive gstate := GNew (p : prog) | GSusp (fs : list frame) | GRun | GDone.

Inductive astate := ANew (p : prog) | ASusp (st : list frame) | ARun | ADead.

Inductive mode := MRun (p : prog) | MRet (v : val) | MThrow (e : exn).

(** [RUnmodelled]: the run reached behaviour the machine does not predict (see [step1], a coroutine that
    suspends while it is being closed); the correspondence check skips and counts such scenarios *)
Inductive runres := RGoing | RQuiet | RRaised (e : exn) | RFuel | RUnmodelled.

Record mstate := mkM {
  ob : objs;
  acts : list astate;
  result : runres;
  klog : list kop;     (* ghost: kernel requests issued during the current activation, in order *)
  gens : list gstate   (* async generator objects *)
}.
#[export] Instance eta_m : Settable _ := settable! mkM <ob; acts; result; klog; gens>.

(** ** tables *)
Fixpoint list_upd {A} (l : list A) (i : nat) (x : A) : list A :=
  match l, i with
  | [], _ => []
  | _ :: r, O => x :: r
  | y :: r, S j => y :: list_upd r j x
  end.

Definition stat_of (s : astate) : actstat :=
  match s with ANew _ => AsNew | ASusp _ => AsSusp | ARun => AsRun | ADead => AsDead end.

Definition set_act (m : mstate) (a : aid) (s : astate) : mstate :=
  m <| acts := list_upd (acts m) a s |> <| ob := (ob m) <| astat := list_upd (astat (ob m)) a (stat_of s) |> |>.

Definition add_acts (m : mstate) (sp : list (aid * prog)) : mstate :=
  fold_left (fun m '(_, p) =>
               m <| acts := acts m ++ [ANew p] |> <| ob := (ob m) <| astat := astat (ob m) ++ [AsNew] |> |>)
            sp m.

Definition set_kern (o : objs) (k : loop) : objs := o <| kern := k |>.
Definition set_closing (m : mstate) (n : nat) : mstate := m <| ob := (ob m) <| closing := n |> |>.

Definition set_gen (m : mstate) (g : nat) (s : gstate) : mstate := m <| gens := list_upd (gens m) g s |>.

(** the frames of the innermost running generator: everything above the nearest generator mark *)
Fixpoint split_gen (st : list frame) (acc : list frame) : option (list frame * frame * list frame) :=
  match st with
  | [] => None
  | (FGenMark g as f) :: r => Some (rev acc, f, r)
  | (FGenClose g as f) :: r => Some (rev acc, f, r)
  | f :: r => split_gen r (f :: acc)
  end.

(** ** the stepper *)

(** the coroutine call stack: the innermost context is the one running; outer ones are activities
    that called [close()] on the next inner one *)
Record ctx := { c_aid : aid; c_stack : list frame }.

Inductive sres :=
| SCont (m : mstate) (md : mode) (c : ctx) (outer : list ctx)
| SDone (m : mstate).                     (* the activation is over (hibernated, ended, or run aborted) *)

Definition finish_ctx (m : mstate) (c : ctx) (outer : list ctx) (r : val + exn) : sres :=
  let m := set_act m (c_aid c) ADead in
  match outer with
  | [] =>
      match r with
      | inl VU => SDone m
      | inl _ => SDone (m <| result := RRaised EActivityLeak |>)
      | inr e => SDone (m <| result := RRaised e |>)
      end
  | c' :: outer' =>
      let m := set_closing m (pred (closing (ob m))) in
      match r with
      | inl _ => SCont m (MRet VU) c' outer'
      | inr EGenExit => SCont m (MRet VU) c' outer'
      | inr e => SCont m (MThrow e) c' outer'
      end
  end.

Definition step1 (cur : aid) (m : mstate) (md : mode) (c : ctx) (outer : list ctx) : sres :=
  let a := c_aid c in
  let st := c_stack c in
  let withst s := {| c_aid := a; c_stack := s |} in
  match md with
  | MRun p =>
      match p with
      | Ret v => SCont m (MRet v) c outer
      | Raise e => SCont m (MThrow e) c outer
      | Prim f k =>
          match f (ob m) cur with
          | mkpres o' ops sp r =>
              let o'' := set_kern o' (kapply_all (kern (ob m)) ops) in
              let m' := add_acts (m <| ob := o'' |> <| klog := klog m ++ ops |>) sp in
              match r with
              | inl v => SCont m' (MRun (k v)) c outer
              | inr e => SCont m' (MThrow e) c outer
              end
          end
      | Hib =>
          match outer with
          | [] => SDone (set_act m a (ASusp st))
          | c' :: outer' =>
              (* a coroutine that yields while being closed: CPython raises "coroutine ignored GeneratorExit"
                 in the Python frame above the one being closed at that moment and finalises the abandoned
                 frames when their last reference is dropped.  The machine has no Python frame boundaries,
                 so it does not predict what follows: the run stops as [RUnmodelled]. *)
              SDone ((set_act m a (ASusp st)) <| result := RUnmodelled |>)
          end
      | Bind p k => SCont m (MRun p) (withst (FBind k :: st)) outer
      | Catch p h => SCont m (MRun p) (withst (FCatch h :: st)) outer
      | LoopS s body => SCont m (MRun (body s)) (withst (FLoop body :: st)) outer
      | CloseAct b =>
          match nth_error (acts m) b with
          | Some (ANew _) => SCont (set_act m b ADead) (MRet VU) c outer
          | Some (ASusp st') =>
              SCont (set_closing (set_act m b ARun) (S (closing (ob m)))) (MThrow EGenExit)
                    {| c_aid := b; c_stack := st' |} (c :: outer)
          | Some ARun => SCont m (MThrow (ERuntime 2)) c outer
          | _ => SCont m (MRet VU) c outer
          end
      | Dyn f => SCont m (MRun (f (ob m) cur)) c outer
      | GenNew body => SCont (m <| gens := gens m ++ [GNew body] |>) (MRet (VN (length (gens m)))) c outer
      | GenNext g =>
          match nth_error (gens m) g with
          | Some (GNew p) => SCont (set_gen m g GRun) (MRun p) (withst (FGenMark g :: st)) outer
          | Some (GSusp fs) => SCont (set_gen m g GRun) (MRet VU) (withst (fs ++ FGenMark g :: st)) outer
          | Some GRun => SCont m (MThrow (ERuntime 5)) c outer     (* anext(): asynchronous generator is already running *)
          | _ => SCont m (MRet VEnd) c outer
          end
      | Yield v =>
          match split_gen st [] with
          | Some (above, FGenMark g, below) => SCont (set_gen m g (GSusp above)) (MRet (VYield v)) (withst below) outer
          | Some (above, FGenClose g, below) =>
              (* async generator ignored GeneratorExit: reported as unraisable during finalisation *)
              SCont (set_gen m g GDone) (MRet VU) (withst below) outer
          | _ => SCont m (MThrow (ERuntime 6)) c outer
          end
      | GenClose g =>
          match nth_error (gens m) g with
          | Some (GNew _) => SCont (set_gen m g GDone) (MRet VU) c outer
          | Some (GSusp fs) => SCont (set_gen m g GRun) (MThrow EGenExit) (withst (fs ++ FGenClose g :: st)) outer
          | _ => SCont m (MRet VU) c outer
          end
      end
  | MRet v =>
      match st with
      | [] => finish_ctx m c outer (inl v)
      | FBind k :: st' => SCont m (MRun (k v)) (withst st') outer
      | FCatch _ :: st' => SCont m (MRet v) (withst st') outer
      | FLoop body :: st' =>
          match v with
          | VCont s => SCont m (MRun (body s)) c outer
          | VBreak r => SCont m (MRet r) (withst st') outer
          | _ => SCont m (MThrow (ERuntime 9)) (withst st') outer
          end
      | FGenMark g :: st' => SCont (set_gen m g GDone) (MRet VEnd) (withst st') outer
      | FGenClose g :: st' => SCont (set_gen m g GDone) (MRet VU) (withst st') outer
      end
  | MThrow e =>
      match st with
      | [] => finish_ctx m c outer (inr e)
      | FBind _ :: st' => SCont m (MThrow e) (withst st') outer
      | FCatch h :: st' => SCont m (MRun (h e)) (withst st') outer
      | FLoop _ :: st' => SCont m (MThrow e) (withst st') outer
      | FGenMark g :: st' => SCont (set_gen m g GDone) (MThrow e) (withst st') outer
      | FGenClose g :: st' =>
          (* exceptions of a generator that is being finalised are unraisable: swallowed *)
          SCont (set_gen m g GDone) (MRet VU) (withst st') outer
      end
  end.

Fixpoint exec (fuel : nat) (cur : aid) (m : mstate) (md : mode) (c : ctx) (outer : list ctx) : mstate :=
  match fuel with
  | O => m <| result := RFuel |>
  | S fuel' =>
      match step1 cur m md c outer with
      | SDone m' => m'
      | SCont m' md' c' outer' => exec fuel' cur m' md' c' outer'
      end
  end.

(** [Loop._run_coroutine(target, signal)] *)
Definition resume (fuel : nat) (m : mstate) (act : activation) : mstate :=
  let a := a_tgt act in
  match nth_error (acts m) a with
  | Some (ANew p) =>
      let m' := set_act m a ARun in
      match a_sig act with
      | None => exec fuel a m' (MRun p) {| c_aid := a; c_stack := [] |} []
      | Some s => exec fuel a m' (MThrow (ESig s)) {| c_aid := a; c_stack := [] |} []
      end
  | Some (ASusp st) =>
      let m' := set_act m a ARun in
      match a_sig act with
      | None => exec fuel a m' (MRet VU) {| c_aid := a; c_stack := st |} []
      | Some s => exec fuel a m' (MThrow (ESig s)) {| c_aid := a; c_stack := st |} []
      end
  | _ => m <| result := RRaised (ERuntime 3) |>    (* resuming a finished coroutine *)
  end.

(** [Loop._run_events] *)
Definition mstep (fuel : nat) (m : mstate) : mstate :=
  match next (kern (ob m)) with
  | None => m <| result := RQuiet |>
  | Some (act, k') => resume fuel (m <| ob := set_kern (ob m) k' |> <| klog := [] |>) act
  end.

Fixpoint mrun (n : nat) (fuel : nat) (m : mstate) : mstate :=
  match n with
  | O => m <| result := RFuel |>
  | S n' =>
      match result m with
      | RGoing => mrun n' fuel (mstep fuel m)
      | _ => m
      end
  end.
