(** Kernel lemmas for C20 (postponing / suspending lets every other runnable activity run first) and the
    kernel part of the C03 livelock bound ([step_budget]).  ARBITRARY clients, as in KernelProps.v. *)
From Coq Require Import ZArith List Bool Lia Sorted.
From Usim Require Import XTime Kernel KernelProps.
Import ListNotations.

Definition is_know (o : kop) : bool := match o with KNow _ _ => true | _ => false end.
Definition n_know (ops : list kop) : nat := length (filter is_know ops).

(** ** effect of requests on the queue and the revocation set *)

Lemma kapply_all_pending ops : forall l,
  length (pending (kapply_all l ops)) = length (pending l) + n_know ops.
Proof.
  unfold kapply_all, n_know. induction ops as [|o ops IH]; cbn; intros l; [lia|].
  rewrite IH. destruct o as [a s|d a s|t a s|s|s]; unfold kapply; cbn [is_know filter length].
  - cbn. rewrite app_length. cbn. lia.
  - destruct (xpos d && xltb (now l) (xadd (now l) d)); cbn; lia.
  - destruct (xltb (now l) t); cbn; lia.
  - cbn. lia.
  - cbn. lia.
Qed.

Definition rv_sub (l1 l2 : loop) : Prop := forall s, mem_sid s (revoked l1) = true -> mem_sid s (revoked l2) = true.

Lemma rv_sub_revoked l1 l2 b : rv_sub l1 l2 -> is_revoked (revoked l1) b = true -> is_revoked (revoked l2) b = true.
Proof. unfold is_revoked. destruct (a_sig b); auto. Qed.

Lemma kapply_mono l o : rv_sub l (kapply l o) /\ forall b, In b (queued l) -> In b (queued (kapply l o)).
Proof.
  unfold rv_sub, queued. destruct o as [a s|d a s|t a s|s|s]; unfold kapply.
  - cbn. split; auto. intros b. rewrite !in_app_iff. tauto.
  - destruct (xpos d && xltb (now l) (xadd (now l) d)); cbn; split; auto.
    intros b. rewrite !in_app_iff, in_wq_push. tauto.
  - destruct (xltb (now l) t); cbn; split; auto.
    intros b. rewrite !in_app_iff, in_wq_push. tauto.
  - cbn. split; auto. unfold mem_sid. cbn. intros s0 H. rewrite H. apply orb_true_r.
  - cbn. auto.
Qed.

Lemma kapply_all_mono ops : forall l,
  rv_sub l (kapply_all l ops) /\ forall b, In b (queued l) -> In b (queued (kapply_all l ops)).
Proof.
  unfold kapply_all. induction ops as [|o ops IH]; cbn; intros l; [unfold rv_sub; auto|].
  destruct (kapply_mono l o) as [H1 H2]. destruct (IH (kapply l o)) as [H3 H4].
  split; [intros s H; auto | auto].
Qed.

Lemma next_pending l a l' :
  inv l -> next l = Some (a, l') ->
  revoked l' = revoked l /\
  ((now l' = now l /\ length (pending l') < length (pending l)) \/ xlt (now l) (now l')).
Proof.
  intros [_ Hf]. unfold next. destruct (skip_revoked (revoked l) (pending l)) as [[a' rest]|] eqn:E.
  - intros H. inversion H; subst; clear H. cbn. split; auto. left. split; auto.
    destruct (skip_revoked_spec _ _ _ _ E) as (pre & -> & _). rewrite app_length. cbn. lia.
  - destruct (pop_future (revoked l) (future l)) as [[[[k a'] rest] f']|] eqn:E2; [|discriminate].
    intros H. inversion H; subst; clear H. cbn. split; auto. right.
    destruct (pop_future_spec _ _ _ _ _ _ _ _ Hf E2) as (I1 & _). exact I1.
Qed.

Section Client.
  Variable S : Type.
  Variable client : S -> loop -> activation -> S * list kop.

  (** [kexec], instrumented: every executed activation with the loop state in which it executes and the
      requests its activity makes before it hibernates *)
  Record xevent := { x_ev : exec_event; x_loop : loop; x_ops : list kop }.

  Fixpoint kexec_x (n : nat) (st : S) (l : loop) : list xevent :=
    match n with
    | O => []
    | Datatypes.S n' =>
        match next l with
        | None => []
        | Some (a, l') =>
            let '(st', ops) := client st l' a in
            {| x_ev := {| e_time := now l'; e_act := a |}; x_loop := l'; x_ops := ops |}
              :: kexec_x n' st' (kapply_all l' ops)
        end
    end.

  Lemma kexec_x_erase n : forall st l, map x_ev (kexec_x n st l) = kexec S client n st l.
  Proof.
    induction n as [|n IH]; cbn; intros st l; auto. destruct (next l) as [[a l']|]; auto.
    destruct (client st l' a) as [st' ops]. cbn. f_equal. apply IH.
  Qed.

  Lemma kexec_x_time n st l x :
    inv l -> In x (kexec_x n st l) -> e_time (x_ev x) = a_due (e_act (x_ev x)) /\ xle (now l) (e_time (x_ev x)).
  Proof.
    intros Hinv Hin. pose proof (exec_at_due S client n st l Hinv) as H. rewrite Forall_forall in H.
    apply H. rewrite <- kexec_x_erase. apply in_map. exact Hin.
  Qed.

  (** ** C03, livelock bound at kernel level *)

  Definition in_step (t : xtime) (x : xevent) : bool := xeqb (e_time (x_ev x)) t.
  (** number of activations executed at time t / number of schedule-for-now requests they issue *)
  Definition step_execs (t : xtime) (tr : list xevent) : nat := length (filter (in_step t) tr).
  Definition step_knows (t : xtime) (tr : list xevent) : nat :=
    list_sum (map (fun x => n_know (x_ops x)) (filter (in_step t) tr)).

  Lemma no_step_after n st l t : inv l -> xlt t (now l) -> filter (in_step t) (kexec_x n st l) = [].
  Proof.
    intros Hinv Hlt. destruct (filter (in_step t) (kexec_x n st l)) as [|x r] eqn:F; auto. exfalso.
    assert (Hx : In x (filter (in_step t) (kexec_x n st l))) by (rewrite F; left; auto).
    apply filter_In in Hx. destruct Hx as [Hx1 Hx2]. apply xeqb_eq in Hx2.
    destruct (kexec_x_time _ _ _ _ Hinv Hx1) as [_ H]. rewrite Hx2 in H.
    exact (xlt_irrefl _ (xlt_le_trans _ _ _ Hlt H)).
  Qed.

  (** From any state of a time step on: the number of activations still executed at this time is at most
      the number queued for it now plus the number of [schedule(target, signal)] (no delay) calls made
      during the rest of the step.  So a time step with finitely many such calls is finite; each executed
      activation consumes one queued item. *)
  Theorem step_budget n : forall st l,
    inv l ->
    step_execs (now l) (kexec_x n st l) <= length (pending l) + step_knows (now l) (kexec_x n st l).
  Proof.
    unfold step_execs, step_knows.
    induction n as [|n IH]; cbn; intros st l Hinv; [lia|].
    destruct (next l) as [[a l']|] eqn:E; [|cbn; lia].
    destruct (next_spec _ _ _ Hinv E) as (H1 & H2 & H3 & _).
    destruct (client st l' a) as [st' ops] eqn:Ec.
    destruct (kapply_all_inv ops l' H1) as (J1 & J2 & _).
    destruct (next_pending _ _ _ Hinv E) as (_ & [[K1 K2]|K]).
    - assert (Hx : xeqb (now l') (now l) = true) by (apply xeqb_eq; auto).
      cbn [filter].
      match goal with |- context [if in_step ?t ?x then _ else _] =>
        change (in_step t x) with (xeqb (now l') (now l)); rewrite Hx end.
      specialize (IH st' _ J1). rewrite J2, K1 in IH. unfold list_sum in *. cbn [length map fold_right x_ops].
      rewrite kapply_all_pending in IH. lia.
    - assert (Hx : xeqb (now l') (now l) = false).
      { destruct (xeqb (now l') (now l)) eqn:Eq; auto. apply xeqb_eq in Eq. rewrite Eq in K.
        destruct (xlt_irrefl _ K). }
      cbn [filter].
      match goal with |- context [if in_step ?t ?x then _ else _] =>
        change (in_step t x) with (xeqb (now l') (now l)); rewrite Hx end.
      rewrite no_step_after; [cbn; lia | exact J1 | rewrite J2; exact K].
  Qed.

  (** ** C20: whoever re-queues itself lets everything queued earlier run first *)

  Lemma kexec_x_rv_mono n : forall st l i x,
    inv l -> nth_error (kexec_x n st l) i = Some x -> rv_sub l (x_loop x).
  Proof.
    induction n as [|n IH]; cbn; intros st l i x Hinv Hn; [destruct i; discriminate|].
    destruct (next l) as [[a l']|] eqn:E; [|destruct i; discriminate].
    destruct (next_spec _ _ _ Hinv E) as (H1 & _). destruct (next_pending _ _ _ Hinv E) as (Hr & _).
    destruct (client st l' a) as [st' ops] eqn:Ec.
    destruct (kapply_all_inv ops l' H1) as (J1 & _).
    destruct i as [|i]; cbn in Hn.
    - inversion Hn; subst. cbn. unfold rv_sub. rewrite Hr. auto.
    - specialize (IH _ _ _ _ J1 Hn). destruct (kapply_all_mono ops l') as [M _].
      unfold rv_sub in *. rewrite <- Hr. auto.
  Qed.

  (** ** C03: a revoked wake-up is never executed

      At the moment an activation executes, its signal is not in the revocation set (the loop skips revoked
      activations when it pops them) ... *)
  Theorem revoked_never_executed n : forall st l,
    inv l -> Forall (fun x => is_revoked (revoked (x_loop x)) (e_act (x_ev x)) = false) (kexec_x n st l).
  Proof.
    induction n as [|n IH]; cbn; intros st l Hinv; [constructor|].
    destruct (next l) as [[a l']|] eqn:E; [|constructor].
    destruct (next_spec _ _ _ Hinv E) as (H1 & _ & _ & _ & H5 & _).
    destruct (next_pending _ _ _ Hinv E) as (Hr & _).
    destruct (client st l' a) as [st' ops] eqn:Ec.
    destruct (kapply_all_inv ops l' H1) as (J1 & _).
    constructor; [cbn; rewrite Hr; exact H5 | apply IH; exact J1].
  Qed.

  Lemma kapply_all_revokes ops s : forall l, In (KRevoke s) ops -> mem_sid s (revoked (kapply_all l ops)) = true.
  Proof.
    unfold kapply_all. induction ops as [|o ops IH]; cbn; intros l H; [contradiction|].
    destruct H as [->|H]; [|apply IH; exact H].
    destruct (kapply_all_mono ops (kapply l (KRevoke s))) as [M _]. apply M. unfold kapply, mem_sid. cbn.
    rewrite Nat.eqb_refl. reflexivity.
  Qed.

  (** ... and revoking is final: once some activation has issued [KRevoke s] (a waiter leaving its wait: the
      `finally: wake_up.revoke()` of postpone/suspend, `__unsubscribe__` of a scheduled subscription, the end of a
      task revoking its pending cancellations), NO later activation of the run carries the signal [s], whatever
      any client does afterwards - even if [s] had been scheduled before, or is scheduled again later. *)
  Theorem revoke_is_final n : forall st l i j xi xj s,
    inv l -> i < j ->
    nth_error (kexec_x n st l) i = Some xi -> nth_error (kexec_x n st l) j = Some xj ->
    In (KRevoke s) (x_ops xi) -> a_sig (e_act (x_ev xj)) <> Some s.
  Proof.
    induction n as [|n IH]; cbn; intros st l i j xi xj s Hinv Hij Hi Hj Hrv; [destruct i; discriminate|].
    destruct (next l) as [[a l']|] eqn:E; [|destruct i; discriminate].
    destruct (next_spec _ _ _ Hinv E) as (H1 & _).
    destruct (client st l' a) as [st' ops] eqn:Ec.
    destruct (kapply_all_inv ops l' H1) as (J1 & _).
    destruct j as [|j]; [lia|]. cbn in Hj.
    destruct i as [|i]; cbn in Hi.
    - inversion Hi; subst xi. cbn in Hrv.
      pose proof (kapply_all_revokes ops s l' Hrv) as Hm.
      pose proof (kexec_x_rv_mono n st' (kapply_all l' ops) j xj J1 Hj) as Hsub.
      pose proof (revoked_never_executed n st' (kapply_all l' ops) J1) as Hall.
      rewrite Forall_forall in Hall. specialize (Hall xj (nth_error_In _ _ Hj)).
      intros Heq. unfold is_revoked in Hall. rewrite Heq in Hall. rewrite (Hsub s Hm) in Hall. discriminate.
    - apply (IH st' (kapply_all l' ops) i j xi xj s J1); auto. lia.
  Qed.

  (** If [b] is queued and must run before [p] (earlier due time, or same due time and scheduled earlier),
      then at the moment [p] executes, [b] has already executed -- unless [b] is revoked by then. *)
  Theorem earlier_runs_first b p n : forall st l i x,
    inv l -> In b (queued l) -> klt b p ->
    nth_error (kexec_x n st l) i = Some x -> e_act (x_ev x) = p ->
    is_revoked (revoked (x_loop x)) b = false ->
    exists j y, j < i /\ nth_error (kexec_x n st l) j = Some y /\ e_act (x_ev y) = b.
  Proof.
    induction n as [|n IH]; cbn; intros st l i x Hinv Hb Hlt Hn Hp Hr; [destruct i; discriminate|].
    destruct (next l) as [[a l']|] eqn:E; [|destruct i; discriminate].
    destruct (next_spec _ _ _ Hinv E) as (H1 & _ & _ & _ & _ & _ & _ & H8).
    destruct (next_pending _ _ _ Hinv E) as (Hrv & _).
    pose proof (kexec_x_rv_mono (Datatypes.S n) st l i x Hinv) as Hm. cbn in Hm. rewrite E in Hm.
    destruct (client st l' a) as [st' ops] eqn:Ec.
    destruct (kapply_all_inv ops l' H1) as (J1 & _).
    specialize (Hm Hn).
    destruct (H8 _ Hb) as [Hx|[Hx|Hx]].
    - rewrite (rv_sub_revoked _ _ _ Hm Hx) in Hr. discriminate.
    - destruct i as [|i]; cbn in Hn.
      + inversion Hn; subst x. cbn in Hp. subst. destruct (klt_irrefl _ Hlt).
      + exists 0. eexists. split; [lia|]. split; [reflexivity|]. cbn. auto.
    - destruct i as [|i]; cbn in Hn.
      + inversion Hn; subst x. cbn in Hp, Hr. subst a. rewrite Hrv in Hr.
        destruct (next_is_minimum _ _ _ Hinv E b Hb Hr) as [->|Hk].
        * destruct (klt_irrefl _ Hlt).
        * destruct (klt_irrefl _ (klt_trans _ _ _ Hlt Hk)).
      + destruct (kapply_all_mono ops l') as [_ M].
        destruct (IH _ _ _ _ J1 (M _ Hx) Hlt Hn Hp Hr) as (j & y & Hj & Hy & Hy').
        exists (Datatypes.S j), y. split; [lia|]. split; auto.
  Qed.

  (** [postpone]: the activity asks for its own wake-up in the current time step ([KNow a s], the activation
      gets the fresh sequence number [nseq l]); [ops] are its remaining requests before it hibernates.
      In EVERY continuation, when that wake-up executes, every activation [b] that was already queued for
      the current time has executed before it (or is revoked, i.e. withdrawn by its own waiter). *)
  Theorem postpone_lets_others_run l a s ops n st i x b :
    inv l -> In b (pending l) ->
    nth_error (kexec_x n st (kapply_all (kapply l (KNow a s)) ops)) i = Some x ->
    e_act (x_ev x) = {| a_tgt := a; a_sig := s; a_seq := nseq l; a_due := now l |} ->
    is_revoked (revoked (x_loop x)) b = false ->
    exists j y, j < i /\ nth_error (kexec_x n st (kapply_all (kapply l (KNow a s)) ops)) j = Some y /\
                e_act (x_ev y) = b.
  Proof.
    intros Hinv Hb Hn Hp Hr.
    destruct (kapply_inv l (KNow a s) Hinv) as (I1 & _). destruct (kapply_all_inv ops _ I1) as (I2 & _).
    eapply earlier_runs_first; eauto.
    - apply kapply_all_mono, kapply_mono. unfold queued. apply in_app_iff. auto.
    - destruct Hinv as [[Hp0 _] _]. rewrite Forall_forall in Hp0. destruct (Hp0 _ Hb). right. cbn. auto.
  Qed.

  (** [suspend(delay=d)] / a Delay subscription: the wake-up executes at exactly now + d, a strictly later time *)
  Theorem suspend_advances l d a s ops n st x :
    inv l -> xpos d && xltb (now l) (xadd (now l) d) = true ->
    In x (kexec_x n st (kapply_all (kapply l (KAfter d a s)) ops)) ->
    e_act (x_ev x) = {| a_tgt := a; a_sig := s; a_seq := nseq l; a_due := xadd (now l) d |} ->
    e_time (x_ev x) = xadd (now l) d /\ xlt (now l) (e_time (x_ev x)).
  Proof.
    intros Hinv Hd Hx Hp. apply andb_true_iff in Hd. destruct Hd as [_ Hd].
    destruct (kapply_inv l (KAfter d a s) Hinv) as (I1 & _). destruct (kapply_all_inv ops _ I1) as (I2 & _).
    destruct (kexec_x_time _ _ _ _ I2 Hx) as [H _]. rewrite Hp in H. cbn in H. rewrite H. auto.
  Qed.

  (** [suspend(until=t)] *)
  Theorem suspend_until_advances l t a s ops n st x :
    inv l -> xltb (now l) t = true ->
    In x (kexec_x n st (kapply_all (kapply l (KAt t a s)) ops)) ->
    e_act (x_ev x) = {| a_tgt := a; a_sig := s; a_seq := nseq l; a_due := t |} ->
    e_time (x_ev x) = t /\ xlt (now l) (e_time (x_ev x)).
  Proof.
    intros Hinv Hd Hx Hp.
    destruct (kapply_inv l (KAt t a s) Hinv) as (I1 & _). destruct (kapply_all_inv ops _ I1) as (I2 & _).
    destruct (kexec_x_time _ _ _ _ I2 Hx) as [H _]. rewrite Hp in H. cbn in H. rewrite H. auto.
  Qed.

  (** ... hence everything that was queued for the current time ran before the suspended activity resumes *)
  Theorem suspend_lets_others_run l o p ops n st i x b :
    inv l -> In b (pending l) -> xlt (now l) (a_due p) ->
    nth_error (kexec_x n st (kapply_all (kapply l o) ops)) i = Some x -> e_act (x_ev x) = p ->
    is_revoked (revoked (x_loop x)) b = false ->
    exists j y, j < i /\ nth_error (kexec_x n st (kapply_all (kapply l o) ops)) j = Some y /\ e_act (x_ev y) = b.
  Proof.
    intros Hinv Hb Hlt Hn Hp Hr.
    destruct (kapply_inv l o Hinv) as (I1 & _). destruct (kapply_all_inv ops _ I1) as (I2 & _).
    eapply earlier_runs_first; eauto.
    - apply kapply_all_mono, kapply_mono. unfold queued. apply in_app_iff. auto.
    - destruct Hinv as [[Hp0 _] _]. rewrite Forall_forall in Hp0. destruct (Hp0 _ Hb) as [Hd _]. left.
      rewrite Hd. exact Hlt.
  Qed.
End Client.

(** ** non-vacuity: three roots; root 0 postpones when it is started, root 1 suspends for 2 *)
Definition demo_client (st : unit) (l : loop) (a : activation) : unit * list kop :=
  match a_tgt a, a_sig a with
  | 0, None => (tt, [KNow 0 (Some 7)])
  | 1, None => (tt, [KAfter (Fin 2) 1 (Some 8)])
  | _, _ => (tt, [])
  end.

Example demo_order :
  map (fun x => (e_time (x_ev x), a_tgt (e_act (x_ev x)), a_sig (e_act (x_ev x))))
      (kexec_x unit demo_client 10 tt (loop_init 3 (Fin 0)))
  = [(Fin 0, 0, None); (Fin 0, 1, None); (Fin 0, 2, None); (Fin 0, 0, Some 7); (Fin 2, 1, Some 8)].
Proof. vm_compute. reflexivity. Qed.

Example demo_budget :
  step_execs (Fin 0) (kexec_x unit demo_client 10 tt (loop_init 3 (Fin 0))) = 4 /\
  length (pending (loop_init 3 (Fin 0))) = 3 /\
  step_knows (Fin 0) (kexec_x unit demo_client 10 tt (loop_init 3 (Fin 0))) = 1.
Proof. vm_compute. auto. Qed.
