(** Theorems about the event loop, for ARBITRARY clients (any program, any schedule of requests). *)
From Coq Require Import ZArith List Bool Lia Sorted.
From Usim Require Import XTime Kernel.
Import ListNotations.

Ltac splits := repeat match goal with |- _ /\ _ => split end.

(** order in which activations must execute: by due time, then by schedule order *)
Definition klt (a b : activation) : Prop :=
  xlt (a_due a) (a_due b) \/ (a_due a = a_due b /\ a_seq a < a_seq b).

Lemma klt_trans a b c : klt a b -> klt b c -> klt a c.
Proof.
  unfold klt. intros [H1|[H1 H1']] [H2|[H2 H2']].
  - left. eapply xlt_trans; eauto.
  - left. rewrite <- H2. exact H1.
  - left. rewrite H1. exact H2.
  - right. split; [congruence | lia].
Qed.

Lemma klt_irrefl a : ~ klt a a.
Proof. intros [H|[_ H]]; [exact (xlt_irrefl _ H) | lia]. Qed.

Definition seq_lt (a b : activation) : Prop := a_seq a < a_seq b.

(** a list of activations for one due time [k], in schedule order, all scheduled before [n] *)
Definition bucket_ok (k : xtime) (n : nat) (vs : list activation) : Prop :=
  Forall (fun a => a_due a = k /\ a_seq a < n) vs /\ StronglySorted seq_lt vs.

Fixpoint keys_ok (lo : xtime) (n : nat) (f : list (xtime * list activation)) : Prop :=
  match f with
  | [] => True
  | (k, vs) :: r => xlt lo k /\ bucket_ok k n vs /\ keys_ok k n r
  end.

Definition inv (l : loop) : Prop :=
  bucket_ok (now l) (nseq l) (pending l) /\ keys_ok (now l) (nseq l) (future l).

Definition queued (l : loop) : list activation := pending l ++ concat (map snd (future l)).

(** ** elementary facts *)

Lemma bucket_ok_mono k n n' vs : n <= n' -> bucket_ok k n vs -> bucket_ok k n' vs.
Proof.
  intros Hn [H1 H2]. split; auto. eapply Forall_impl; [|exact H1]. cbn. intros a [? ?]. split; auto. lia.
Qed.

Lemma keys_ok_mono lo n n' f : n <= n' -> keys_ok lo n f -> keys_ok lo n' f.
Proof.
  revert lo. induction f as [|[k vs] r IH]; cbn; auto. intros lo Hn (H1 & H2 & H3).
  split; [auto|]. split; [eapply bucket_ok_mono; eauto | apply IH; auto].
Qed.

Lemma keys_ok_weaken lo lo' n f : xle lo' lo -> keys_ok lo n f -> keys_ok lo' n f.
Proof.
  destruct f as [|[k vs] r]; cbn; auto. intros H (H1 & H2 & H3). splits; auto.
  eapply xle_lt_trans; eauto.
Qed.

Lemma bucket_ok_snoc k n vs v :
  bucket_ok k n vs -> a_due v = k -> a_seq v = n -> bucket_ok k (S n) (vs ++ [v]).
Proof.
  intros [H1 H2] Hd Hs. split.
  - apply Forall_app. split.
    + eapply Forall_impl; [|exact H1]. cbn. intros a [? ?]. split; auto.
    + constructor; auto. split; auto. lia.
  - induction vs as [|x vs IH]; cbn.
    + constructor; constructor.
    + inversion H2 as [|? ? Hs1 Hs2]; subst. inversion H1 as [|? ? Hx Hr]; subst.
      constructor; [apply IH; auto|].
      apply Forall_app. split; auto. constructor; auto. unfold seq_lt. destruct Hx. lia.
Qed.

Lemma bucket_ok_single k n v : a_due v = k -> a_seq v < n -> bucket_ok k n [v].
Proof. intros H1 H2. split; [constructor; auto | constructor; constructor]. Qed.

Lemma wq_push_ok lo n k v f :
  keys_ok lo n f -> xlt lo k -> a_due v = k -> a_seq v = n -> keys_ok lo (S n) (wq_push k v f).
Proof.
  revert lo. induction f as [|[k' vs] r IH]; cbn; intros lo H Hk Hd Hs.
  - splits; auto. apply bucket_ok_single; auto. lia.
  - destruct H as (H1 & H2 & H3).
    destruct (xltb k k') eqn:E1.
    + cbn. splits; auto.
      * apply bucket_ok_single; auto. lia.
      * eapply bucket_ok_mono; [|exact H2]. lia.
      * eapply keys_ok_mono; [|exact H3]. lia.
    + destruct (xeqb k k') eqn:E2.
      * apply xeqb_eq in E2. subst k'. cbn. splits; auto.
        -- apply bucket_ok_snoc; auto.
        -- eapply keys_ok_mono; [|exact H3]. lia.
      * cbn. splits; auto.
        -- eapply bucket_ok_mono; [|exact H2]. lia.
        -- apply IH; auto.
           apply xltb_false_xleb in E1. unfold xlt.
           destruct k, k'; cbn in *; auto; try discriminate.
           apply Z.leb_le in E1. apply Z.eqb_neq in E2. apply Z.ltb_lt. lia.
Qed.

Lemma in_wq_push k v f a :
  In a (concat (map snd (wq_push k v f))) <-> v = a \/ In a (concat (map snd f)).
Proof.
  induction f as [|[k' vs] r IH]; cbn.
  - tauto.
  - destruct (xltb k k'); [cbn; tauto|]. destruct (xeqb k k'); cbn.
    + rewrite !in_app_iff. cbn. tauto.
    + rewrite !in_app_iff, IH. tauto.
Qed.

(** ** the invariant is preserved by every request *)

Lemma kapply_inv l o :
  inv l -> inv (kapply l o) /\ now (kapply l o) = now l /\ nseq l <= nseq (kapply l o).
Proof.
  intros [Hp Hf]. unfold inv. destruct o as [a s|d a s|t a s|s|s]; unfold kapply.
  - cbn. splits; auto.
    + apply bucket_ok_snoc; auto.
    + eapply keys_ok_mono; [|exact Hf]. lia.
  - destruct (xpos d && xltb (now l) (xadd (now l) d)) eqn:E; cbn; [|splits; auto].
    apply andb_prop in E. destruct E as [_ E].
    splits; auto.
    + eapply bucket_ok_mono; [|exact Hp]. lia.
    + apply wq_push_ok; auto.
  - destruct (xltb (now l) t) eqn:E; cbn; [|splits; auto].
    splits; auto.
    + eapply bucket_ok_mono; [|exact Hp]. lia.
    + apply wq_push_ok; auto.
  - cbn. splits; auto.
  - cbn. splits; auto.
Qed.

Lemma kapply_all_inv ops : forall l,
  inv l -> inv (kapply_all l ops) /\ now (kapply_all l ops) = now l /\ nseq l <= nseq (kapply_all l ops).
Proof.
  unfold kapply_all. induction ops as [|o ops IH]; cbn; intros l H; auto.
  destruct (kapply_inv l o H) as (H1 & H2 & H3).
  destruct (IH _ H1) as (H4 & H5 & H6). splits; auto; [congruence | lia].
Qed.

(** what a request can add to the queue: only an activation that is later than everything executed
    so far -- a fresh sequence number and a due time not before the current time *)
Lemma kapply_queued l o a :
  In a (queued (kapply l o)) ->
  In a (queued l) \/ (nseq l <= a_seq a /\ xle (now l) (a_due a)).
Proof.
  unfold queued. destruct o as [b s|d b s|t b s|s|s]; unfold kapply; auto.
  - cbn. rewrite !in_app_iff. cbn. intros [[H|[H|[]]]|H]; auto.
    right. subst a. cbn. split; [lia | apply xle_refl].
  - destruct (xpos d && xltb (now l) (xadd (now l) d)) eqn:E; cbn; auto.
    rewrite !in_app_iff, in_wq_push. intros [H|[H|H]]; auto.
    right. subst a. cbn. apply andb_prop in E. destruct E as [_ E]. split; [lia | apply xlt_le; exact E].
  - destruct (xltb (now l) t) eqn:E; cbn; auto.
    rewrite !in_app_iff, in_wq_push. intros [H|[H|H]]; auto.
    right. subst a. cbn. split; [lia | apply xlt_le; exact E].
Qed.

Lemma kapply_all_queued ops : forall l a,
  inv l ->
  In a (queued (kapply_all l ops)) ->
  In a (queued l) \/ (nseq l <= a_seq a /\ xle (now l) (a_due a)).
Proof.
  unfold kapply_all. induction ops as [|o ops IH]; cbn; intros l a Hinv H; auto.
  destruct (kapply_inv l o Hinv) as (H1 & H2 & H3).
  destruct (IH _ _ H1 H) as [H4|[H4 H5]].
  - apply kapply_queued in H4. exact H4.
  - right. rewrite H2 in H5. split; auto. lia.
Qed.

(** ** popping *)

Lemma skip_revoked_spec rv p a rest :
  skip_revoked rv p = Some (a, rest) ->
  exists pre, p = pre ++ a :: rest /\ is_revoked rv a = false /\ Forall (fun b => is_revoked rv b = true) pre.
Proof.
  revert a rest. induction p as [|x p IH]; cbn; intros a rest H; [discriminate|].
  destruct (is_revoked rv x) eqn:E.
  - destruct (IH _ _ H) as (pre & H1 & H2 & H3). exists (x :: pre). subst p. splits; auto.
  - inversion H; subst. exists []. splits; auto.
Qed.

Lemma skip_revoked_none rv p : skip_revoked rv p = None <-> Forall (fun b => is_revoked rv b = true) p.
Proof.
  induction p as [|x p IH]; cbn.
  - split; auto.
  - destruct (is_revoked rv x) eqn:E.
    + rewrite IH. split; intro H; [constructor; auto | inversion H; auto].
    + split; [discriminate|]. intro H. inversion H; congruence.
Qed.

Lemma bucket_ok_suffix k n pre a rest :
  bucket_ok k n (pre ++ a :: rest) ->
  a_due a = k /\ a_seq a < n /\ bucket_ok k n rest /\ Forall (seq_lt a) rest.
Proof.
  intros [H1 H2]. induction pre as [|x pre IH]; cbn in *.
  - inversion H1 as [|? ? [Ha Hb] Hr]; subst. inversion H2; subst. splits; auto. split; auto.
  - inversion H1; subst. inversion H2; subst. apply IH; auto.
Qed.

Lemma keys_ok_all_later lo n f b :
  keys_ok lo n f -> In b (concat (map snd f)) -> xlt lo (a_due b) /\ a_seq b < n.
Proof.
  revert lo. induction f as [|[k vs] r IH]; cbn; intros lo H Hin; [tauto|].
  destruct H as (H1 & [H2 H2'] & H3). apply in_app_iff in Hin. destruct Hin as [Hin|Hin].
  - rewrite Forall_forall in H2. destruct (H2 _ Hin) as [Hd Hs]. rewrite Hd. auto.
  - destruct (IH _ H3 Hin) as [H4 H5]. split; auto. eapply xlt_trans; eauto.
Qed.

Lemma pop_future_spec rv lo n f k a rest f' :
  keys_ok lo n f -> pop_future rv f = Some (k, a, rest, f') ->
  xlt lo k /\ a_due a = k /\ a_seq a < n /\ is_revoked rv a = false /\
  bucket_ok k n rest /\ Forall (seq_lt a) rest /\ keys_ok k n f' /\
  In a (concat (map snd f)) /\
  (forall b, In b (rest ++ concat (map snd f')) -> In b (concat (map snd f))) /\
  (forall b, In b (concat (map snd f)) -> is_revoked rv b = true \/ b = a \/ In b (rest ++ concat (map snd f'))).
Proof.
  revert lo. induction f as [|[k' vs] r IH]; cbn; intros lo H Hp; [discriminate|].
  destruct H as (H1 & H2 & H3).
  destruct (skip_revoked rv vs) as [[a' rest']|] eqn:E.
  - inversion Hp; subst. destruct (skip_revoked_spec _ _ _ _ E) as (pre & Hvs & Hr & Hpre).
    subst vs. destruct (bucket_ok_suffix _ _ _ _ _ H2) as (Ha & Hb & Hc & Hd).
    splits; auto.
    + rewrite !in_app_iff. cbn. auto.
    + intros b. rewrite !in_app_iff. cbn. tauto.
    + intros b. rewrite !in_app_iff. cbn. rewrite Forall_forall in Hpre. intros Hb0. intuition (subst; auto).
  - destruct (IH _ H3 Hp) as (I1 & I2 & I3 & I4 & I5 & I6 & I7 & I8 & I9 & I10).
    splits; auto.
    + eapply xlt_trans; eauto.
    + apply in_app_iff. auto.
    + intros b Hb. apply in_app_iff. right. auto.
    + intros b Hb. apply in_app_iff in Hb. destruct Hb as [Hb|Hb]; auto.
      left. apply skip_revoked_none in E. rewrite Forall_forall in E. auto.
Qed.

(** ** one step of the loop *)

Lemma next_spec l a l' :
  inv l -> next l = Some (a, l') ->
  inv l' /\ now l' = a_due a /\ xle (now l) (now l') /\ nseq l' = nseq l /\
  is_revoked (revoked l) a = false /\ In a (queued l) /\
  (forall b, In b (queued l') -> In b (queued l) /\ klt a b) /\
  (forall b, In b (queued l) -> is_revoked (revoked l) b = true \/ b = a \/ In b (queued l')).
Proof.
  intros [Hp Hf] H. unfold next in H.
  destruct (skip_revoked (revoked l) (pending l)) as [[a' rest]|] eqn:E.
  - inversion H; subst; clear H. destruct (skip_revoked_spec _ _ _ _ E) as (pre & Hpe & Hr & Hpre).
    rewrite Hpe in Hp. destruct (bucket_ok_suffix _ _ _ _ _ Hp) as (Ha & Hb & Hc & Hd).
    unfold inv, queued. cbn. rewrite Hpe.
    split; [split; auto|]. split; [auto|]. split; [apply xle_refl|]. split; [auto|]. split; [auto|].
    split; [rewrite !in_app_iff; cbn; auto|]. split.
    + intros b Hb0. apply in_app_iff in Hb0. split; [rewrite !in_app_iff; cbn; tauto|].
      destruct Hb0 as [H|H].
      * right. rewrite Forall_forall in Hd. destruct Hc as [Hc _]. rewrite Forall_forall in Hc.
        destruct (Hc _ H) as [Hc1 _]. split; [congruence | apply Hd; auto].
      * left. rewrite Ha. eapply keys_ok_all_later; eauto.
    + intros b. rewrite !in_app_iff. cbn. rewrite Forall_forall in Hpre. intros Hb0.
      intuition (subst; auto).
  - destruct (pop_future (revoked l) (future l)) as [[[[k a'] rest] f']|] eqn:E2; [|discriminate].
    inversion H; subst; clear H.
    destruct (pop_future_spec _ _ _ _ _ _ _ _ Hf E2) as (I1 & I2 & I3 & I4 & I5 & I6 & I7 & I8 & I9 & I10).
    apply skip_revoked_none in E. rewrite Forall_forall in E.
    unfold inv, queued. cbn.
    split; [split; auto|]. split; [auto|]. split; [apply xlt_le; exact I1|]. split; [auto|].
    split; [auto|]. split; [apply in_app_iff; auto|]. split.
    + intros b Hb0. split; [apply in_app_iff; right; apply I9; exact Hb0|].
      apply in_app_iff in Hb0. destruct Hb0 as [H|H].
      * right. rewrite Forall_forall in I6. destruct I5 as [I5 _]. rewrite Forall_forall in I5.
        destruct (I5 _ H) as [Hc1 _]. split; [congruence | apply I6; auto].
      * left. rewrite I2. eapply keys_ok_all_later; eauto.
    + intros b Hb0. apply in_app_iff in Hb0. destruct Hb0 as [Hb0|Hb0]; auto.
Qed.

(** C15: the run ends exactly when no unrevoked activation is queued *)
Theorem next_none_iff_quiescent l :
  next l = None <-> Forall (fun b => is_revoked (revoked l) b = true) (queued l).
Proof.
  unfold next, queued. split.
  - destruct (skip_revoked (revoked l) (pending l)) as [[a rest]|] eqn:E; [discriminate|].
    destruct (pop_future (revoked l) (future l)) as [[[[k a] rest] f']|] eqn:E2; [discriminate|].
    intros _. apply Forall_app. split; [apply skip_revoked_none; exact E|].
    clear E. induction (future l) as [|[k vs] r IH]; cbn in *; [constructor|].
    destruct (skip_revoked (revoked l) vs) as [[a rest]|] eqn:E3; [discriminate|].
    apply Forall_app. split; [apply skip_revoked_none; exact E3 | auto].
  - intros H. apply Forall_app in H. destruct H as [H1 H2].
    apply skip_revoked_none in H1. rewrite H1.
    assert (pop_future (revoked l) (future l) = None) as ->; [|reflexivity].
    induction (future l) as [|[k vs] r IH]; cbn in *; auto.
    apply Forall_app in H2. destruct H2 as [H2 H3]. apply skip_revoked_none in H2. rewrite H2. auto.
Qed.

(** ** executions of arbitrary clients *)
Section Client.
  Variable S : Type.
  Variable client : S -> loop -> activation -> S * list kop.

  Definition ev_lt (x y : exec_event) : Prop := klt (e_act x) (e_act y).

  (** every activation that will ever execute is either queued now, or will be scheduled later
      (fresh sequence number, due not before now) *)
  Lemma kexec_bound n : forall st l e,
    inv l -> In e (kexec S client n st l) ->
    e_time e = a_due (e_act e) /\ xle (now l) (e_time e) /\
    (In (e_act e) (queued l) \/ (nseq l <= a_seq (e_act e) /\ xle (now l) (a_due (e_act e)))).
  Proof.
    induction n as [|n IH]; cbn; intros st l e Hinv Hin; [tauto|].
    destruct (next l) as [[a l']|] eqn:E; [|destruct Hin].
    destruct (next_spec _ _ _ Hinv E) as (H1 & H2 & H3 & H4 & H5 & H6 & H7 & H8).
    destruct (client st l' a) as [st' ops] eqn:Ec. cbn in Hin. destruct Hin as [Hin|Hin].
    - subst e. cbn. splits; auto.
    - destruct (kapply_all_inv ops l' H1) as (J1 & J2 & J3).
      destruct (IH _ _ _ J1 Hin) as (K1 & K2 & K3). rewrite J2 in K2, K3.
      splits; auto.
      + eapply xle_trans; eauto.
      + destruct K3 as [K3|[K3 K4]].
        * apply kapply_all_queued in K3; auto. destruct K3 as [K3|[K3 K4]].
          -- left. apply H7. exact K3.
          -- right. split; [lia | eapply xle_trans; eauto].
        * right. split; [lia | eapply xle_trans; eauto].
  Qed.

  (** K5 / C01: every activation executes at exactly its due time, and never before the current time *)
  Theorem exec_at_due n st l :
    inv l -> Forall (fun e => e_time e = a_due (e_act e) /\ xle (now l) (e_time e)) (kexec S client n st l).
  Proof.
    intros H. apply Forall_forall. intros e He. destruct (kexec_bound _ _ _ _ H He) as (H1 & H2 & _). auto.
  Qed.

  (** K1 + K3 + K6 / C01, C02: the executed sequence is strictly increasing in (due time, schedule order):
      time never decreases, activations for one time execute in the order of their schedule calls, and
      no activation executes twice *)
  Theorem exec_sorted n : forall st l, inv l -> StronglySorted ev_lt (kexec S client n st l).
  Proof.
    induction n as [|n IH]; cbn; intros st l Hinv; [constructor|].
    destruct (next l) as [[a l']|] eqn:E; [|constructor].
    destruct (next_spec _ _ _ Hinv E) as (H1 & H2 & H3 & H4 & H5 & H6 & H7 & H8).
    destruct (client st l' a) as [st' ops] eqn:Ec.
    destruct (kapply_all_inv ops l' H1) as (J1 & J2 & J3).
    constructor; [apply IH; exact J1|].
    apply Forall_forall. intros e He. unfold ev_lt. cbn.
    destruct (kexec_bound _ _ _ _ J1 He) as (K1 & K2 & K3). rewrite J2 in K3.
    destruct K3 as [K3|[K3 K4]].
    - apply kapply_all_queued in K3; auto. destruct K3 as [K3|[K3 K4]].
      + apply H7. exact K3.
      + rewrite H2 in K4. unfold klt.
        destruct (xle_total (a_due (e_act e)) (a_due a)) as [Hle|Hlt]; auto.
        right. split; [apply xle_antisym; auto|].
        assert (a_seq a < nseq l').
        { destruct Hinv as [Hp Hf]. rewrite H4. unfold queued in H6. apply in_app_iff in H6.
          destruct H6 as [H6|H6].
          - destruct Hp as [Hp _]. rewrite Forall_forall in Hp. apply Hp in H6. tauto.
          - eapply keys_ok_all_later; eauto. }
        lia.
    - rewrite H2 in K4. unfold klt.
      destruct (xle_total (a_due (e_act e)) (a_due a)) as [Hle|Hlt]; auto.
      right. split; [apply xle_antisym; auto|].
      assert (a_seq a < nseq l').
      { destruct Hinv as [Hp Hf]. rewrite H4. unfold queued in H6. apply in_app_iff in H6.
        destruct H6 as [H6|H6].
        - destruct Hp as [Hp _]. rewrite Forall_forall in Hp. apply Hp in H6. tauto.
        - eapply keys_ok_all_later; eauto. }
      lia.
  Qed.

  (** K1: the clock never decreases along an execution *)
  Corollary time_monotone n st l :
    inv l -> StronglySorted (fun x y => xle (e_time x) (e_time y)) (kexec S client n st l).
  Proof.
    intros H. assert (Hs := exec_sorted n st l H). assert (Hd := exec_at_due n st l H).
    induction Hs as [|x xs Hs IH Hx]; constructor.
    - apply IH. inversion Hd; auto.
    - inversion Hd as [|? ? [Hx1 _] Hr]; subst. rewrite Forall_forall in *. intros y Hy.
      destruct (Hr _ Hy) as [Hy1 _]. rewrite Hx1, Hy1. specialize (Hx _ Hy). unfold ev_lt, klt in Hx.
      destruct Hx as [Hx|[Hx _]]; [apply xlt_le; auto | rewrite Hx; apply xle_refl].
  Qed.
End Client.

(** K2 + C20 kernel lemma: the activation that executes is the minimum of everything queued and not
    revoked.  Hence all work for time t runs before the clock passes t, and an activity that re-queues
    itself at the tail of the current time step (postpone) is resumed only after every activation
    queued before it has executed or been revoked. *)
Theorem next_is_minimum l a l' :
  inv l -> next l = Some (a, l') ->
  forall b, In b (queued l) -> is_revoked (revoked l) b = false -> b = a \/ klt a b.
Proof.
  intros Hinv H b Hb Hr. destruct (next_spec _ _ _ Hinv H) as (_ & _ & _ & _ & _ & _ & H7 & H8).
  destruct (H8 _ Hb) as [H9|[H9|H9]]; [congruence | auto | right; apply H7; auto].
Qed.

Lemma loop_init_inv n start : inv (loop_init n start).
Proof.
  unfold inv, loop_init. cbn. split; [|exact I].
  assert (G : forall m i, bucket_ok start (i + m) (root_activations m i start) /\
                          Forall (fun a => i <= a_seq a) (root_activations m i start)).
  { induction m as [|m IH]; cbn; intros i.
    - split; [split; constructor | constructor].
    - destruct (IH (S i)) as [[I1 I2] I3]. replace (i + S m) with (S i + m) by lia.
      split; [split|]; constructor; cbn; auto;
        try (split; auto; lia);
        try (eapply Forall_impl; [|exact I3]; unfold seq_lt; cbn; intros; lia). }
  destruct (G n 0) as [G1 _]. exact G1.
Qed.

(** the activation requested by [schedule(delay=d)] is due exactly [d] after now, the one requested by
    [schedule()] exactly now; nothing else is added to the queue *)
Lemma kafter_due l d t s b :
  xpos d && xltb (now l) (xadd (now l) d) = true ->
  In b (queued (kapply l (KAfter d t s))) ->
  In b (queued l) \/ (a_tgt b = t /\ a_sig b = s /\ a_due b = xadd (now l) d /\ a_seq b = nseq l).
Proof.
  intros H. unfold queued, kapply. rewrite H. cbn. rewrite !in_app_iff, in_wq_push.
  intros [Hb|[Hb|Hb]]; auto. right. subst b. cbn. auto.
Qed.

Lemma know_due l t s b :
  In b (queued (kapply l (KNow t s))) ->
  In b (queued l) \/ (a_tgt b = t /\ a_sig b = s /\ a_due b = now l /\ a_seq b = nseq l).
Proof.
  unfold queued, kapply. cbn. rewrite !in_app_iff. cbn.
  intros [[Hb|[Hb|[]]]|Hb]; auto. right. subst b. cbn. auto.
Qed.
