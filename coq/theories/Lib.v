(** usim's library routines transcribed as coroutine programs of Machine.v.
    Each definition names the Python routine it is taken from; the atomic sections between two
    suspension points are primitives, suspension is [Hib]. *)
From Coq Require Import ZArith List Bool Lia.
From RecordUpdate Require Import RecordSet.
From Usim Require Import XTime Tables Kernel Machine.
Import ListNotations.
Import RecordSetNotations.

Notation "x <- p ;; q" := (Bind p (fun x => q)) (at level 61, p at next level, right associativity).
Notation "p ;;; q" := (Bind p (fun _ => q)) (at level 61, right associativity).

Definition okv (o : objs) (v : val) : pres := mkpres o [] [] (inl v).
Definition oku (o : objs) : pres := mkpres o [] [] (inl VU).
Definition okk (o : objs) (ops : list kop) : pres := mkpres o ops [] (inl VU).
Definition err (o : objs) (e : exn) : pres := mkpres o [] [] (inr e).

Definition Do (f : primfn) : prog := Prim f Ret.
Definition Upd (f : objs -> objs) : prog := Do (fun o _ => oku (f o)).
Definition Kop (f : objs -> aid -> list kop) : prog := Do (fun o a => okk o (f o a)).

Definition Finally (p fin : prog) : prog :=
  v <- Catch p (fun e => fin ;;; Raise e) ;; fin ;;; Ret v.

Definition While (c : objs -> bool) (body : prog) : prog :=
  LoopS VU (fun _ => Dyn (fun o _ => if c o then body ;;; Ret (VCont VU) else Ret (VBreak VU))).

Definition is_sig (e : exn) (w : sid) : bool := match e with ESig s => Nat.eqb s w | _ => false end.

(** ** object access *)
Definition dnotif : notif := {| nk := NPlain; waiting := []; trig := false |}.
Definition get_notif (o : objs) (n : nid) : notif := nth n (notifs o) dnotif.
Definition set_notif (o : objs) (n : nid) (x : notif) : objs := o <| notifs := list_upd (notifs o) n x |>.
Definition dflag : flagrec := {| fval := false; fnid := 0; finv := 0 |}.
Definition get_flag (o : objs) f := nth f (flags o) dflag.
Definition dtrack : trackrec := {| tval := 0%Z; tlisteners := [] |}.
Definition get_track (o : objs) v := nth v (tracked o) dtrack.
Definition dtask : taskrec :=
  {| t_name := 0; t_parent := 0; t_volatile := false; t_result := None; t_runner := 0; t_done := 0;
     t_notdone := 0; t_doneval := false; t_cancels := [] |}.
Definition get_task (o : objs) t := nth t (tasks o) dtask.
Definition set_task (o : objs) t x : objs := o <| tasks := list_upd (tasks o) t x |>.
Definition dscope : scoperec :=
  {| s_owner := 0; s_children := []; s_volatile := []; s_failures := []; s_bodydone := 0;
     s_interruptable := false; s_cancel := 0; s_until := None; s_env := false |}.
Definition get_scope (o : objs) sc := nth sc (scopes o) dscope.
Definition set_scope (o : objs) sc x : objs := o <| scopes := list_upd (scopes o) sc x |>.
Definition dlock : lockrec := {| l_owner := None; l_depth := 0%Z; l_notif := 0 |}.
Definition get_lock (o : objs) l := nth l (locks o) dlock.
Definition set_lock (o : objs) l x : objs := o <| locks := list_upd (locks o) l x |>.
Definition dqueue : queuerec := {| q_buf := []; q_notif := 0; q_mutex := 0; q_closed := false |}.
Definition get_queue (o : objs) q := nth q (queues o) dqueue.
Definition set_queue (o : objs) q x : objs := o <| queues := list_upd (queues o) q x |>.

Definition onow (o : objs) : xtime := now (kern o).
Definition is_scheduled (o : objs) (s : sid) : bool := mem_sid s (scheduled (kern o)).

Fixpoint assoc_nat {A} (k : nat) (l : list (nat * A)) : option A :=
  match l with [] => None | (k', v) :: r => if Nat.eqb k k' then Some v else assoc_nat k r end.

(** allocation *)
Definition new_sig (k : sigkind) : prog :=
  Do (fun o _ => okv (o <| sigs := sigs o ++ [k] |>) (VN (length (sigs o)))).
Definition new_notif (k : nkind) : prog :=
  Do (fun o _ => okv (o <| notifs := notifs o ++ [{| nk := k; waiting := []; trig := false |}] |>)
                     (VN (length (notifs o)))).
Definition alloc_notif (o : objs) (k : nkind) : objs * nid :=
  (o <| notifs := notifs o ++ [{| nk := k; waiting := []; trig := false |}] |>, length (notifs o)).

(** ** truth of conditions ([__bool__]) *)
Fixpoint cond_true_f (fuel : nat) (o : objs) (n : nid) : bool :=
  match fuel with
  | O => false
  | S fuel' =>
      match nk (get_notif o n) with
      | NPlain => false
      | NFlag f => fval (get_flag o f)
      | NInvFlag f => negb (fval (get_flag o f))
      | NAfter d => xleb d (onow o)              (* loop.time >= date *)
      | NBefore d => xltb (onow o) d             (* loop.time < date *)
      | NMoment d _ => xeqb (onow o) d           (* loop.time == date *)
      | NEternity => false
      | NInstant => true
      | NDelay _ => false
      | NCmp v op z => cmp_eval op (tval (get_track o v)) z
      | NCmp2 v op v2 => cmp_eval op (tval (get_track o v)) (tval (get_track o v2))
      | NDone t => t_doneval (get_task o t)
      | NNotDone t => negb (t_doneval (get_task o t))
      | NAll cs => forallb (cond_true_f fuel' o) cs
      | NAny cs => existsb (cond_true_f fuel' o) cs
      end
  end.
Definition cond_true (o : objs) (n : nid) : bool := cond_true_f (S (length (notifs o))) o n.

(** [Connective.__pending_children__]: the false leaves, nested connectives expanded *)
Fixpoint pending_f (fuel : nat) (o : objs) (n : nid) : list nid :=
  match fuel with
  | O => []
  | S fuel' =>
      let children cs :=
        flat_map (fun c => if cond_true o c then []
                           else match nk (get_notif o c) with
                                | NAll _ | NAny _ => pending_f fuel' o c
                                | _ => [c]
                                end) cs in
      match nk (get_notif o n) with
      | NAll cs => children cs
      | NAny cs => children cs
      | _ => []
      end
  end.
Definition pending_children (o : objs) (n : nid) : list nid := pending_f (S (length (notifs o))) o n.

(** ** Notification *)
(** [__awake_all__]: copy, clear, schedule each in list order *)
Definition awake_all (o : objs) (n : nid) : objs * list kop :=
  let x := get_notif o n in
  (set_notif o n (x <| waiting := [] |>), map (fun '(a, s) => KNow a (Some s)) (waiting x)).
(** [__awake_next__]: pop the oldest waiter and schedule it *)
Definition awake_next (o : objs) (n : nid) : objs * list kop * option (aid * sid) :=
  let x := get_notif o n in
  match waiting x with
  | [] => (o, [], None)
  | (a, s) :: r => (set_notif o n (x <| waiting := r |>), [KNow a (Some s)], Some (a, s))
  end.
Definition plain_subscribe (o : objs) (n : nid) (a : aid) (w : sid) : objs :=
  let x := get_notif o n in set_notif o n (x <| waiting := waiting x ++ [(a, w)] |>).
Fixpoint remove_pair (a : aid) (w : sid) (l : list (aid * sid)) : list (aid * sid) :=
  match l with
  | [] => []
  | (a', w') :: r => if Nat.eqb a a' && Nat.eqb w w' then r else (a', w') :: remove_pair a w r
  end.
Definition mem_pair (a : aid) (w : sid) (l : list (aid * sid)) : bool :=
  existsb (fun '(a', w') => Nat.eqb a a' && Nat.eqb w w') l.
(** [Notification.__unsubscribe__]: revoke if scheduled, else remove from the waiting list *)
Definition plain_unsubscribe (o : objs) (n : nid) (a : aid) (w : sid) : objs * list kop :=
  if is_scheduled o w then (o, [KRevoke w])
  else let x := get_notif o n in (set_notif o n (x <| waiting := remove_pair a w (waiting x) |>), []).

(** [After._ensure_trigger]: a one-shot activity scheduled [at=date] that runs [__trigger__] *)
Definition trigger_prog (n : nid) : prog :=
  Do (fun o _ => let '(o', ks) := awake_all o n in okk o' ks).
Definition ensure_trigger (o : objs) (n : nid) (d : xtime) : pres :=
  let x := get_notif o n in
  if trig x then oku o
  else if xltb (onow o) d then
         let a := length (astat o) in
         mkpres (set_notif o n (x <| trig := true |>)) [KAt d a None] [(a, trigger_prog n)] (inl VU)
       else err (set_notif o n (x <| trig := true |>)) EAssertion.

(** [Condition.__subscribe__]: deliver immediately when already true *)
Definition cond_subscribe (o : objs) (n : nid) (a : aid) (w : sid) : pres :=
  if cond_true o n then okk o [KMark w; KNow a (Some w)] else oku (plain_subscribe o n a w).

(** class specific [__subscribe__] *)
Definition subscribe_pres (o : objs) (n : nid) (a : aid) (w : sid) : pres :=
  match nk (get_notif o n) with
  | NPlain => oku (plain_subscribe o n a w)
  | NDelay d =>
      if xpos d && xltb (onow o) (xadd (onow o) d) then okk o [KMark w; KAfter d a (Some w)]
      else err o EAssertion
  | NAfter d =>
      if cond_true o n then cond_subscribe o n a w
      else match ensure_trigger o n d with
           | mkpres o' ks sp (inl _) =>
               match cond_subscribe o' n a w with
               | mkpres o'' ks' sp' r => mkpres o'' (ks ++ ks') (sp ++ sp') r
               end
           | r => r
           end
  | NMoment d na =>
      if xltb d (onow o) then oku (plain_subscribe o n a w)    (* the moment has passed *)
      else if cond_true o na then cond_subscribe o na a w
      else match ensure_trigger o na d with
           | mkpres o' ks sp (inl _) =>
               match cond_subscribe o' na a w with
               | mkpres o'' ks' sp' r => mkpres o'' (ks ++ ks') (sp ++ sp') r
               end
           | r => r
           end
  | _ => cond_subscribe o n a w
  end.
Definition unsubscribe_pair (o : objs) (n : nid) (a : aid) (w : sid) : objs * list kop :=
  match nk (get_notif o n) with
  | NMoment _ na =>
      if mem_pair a w (waiting (get_notif o n)) then plain_unsubscribe o n a w
      else plain_unsubscribe o na a w
  | _ => plain_unsubscribe o n a w
  end.
Definition subscribe (n : nid) (a : aid) (w : sid) : prog := Do (fun o _ => subscribe_pres o n a w).
Definition unsubscribe (n : nid) (a : aid) (w : sid) : prog :=
  Do (fun o _ => let '(o', ks) := unsubscribe_pair o n a w in okk o' ks).

(** [postpone()] *)
Definition postpone : prog :=
  w <- new_sig SKWake ;; let w := vnat w in
  Kop (fun _ a => [KNow a (Some w)]) ;;;
  Finally (Catch Hib (fun e => if is_sig e w then Ret VU else Raise e)) (Kop (fun _ _ => [KRevoke w])).

(** [suspend(delay=, until=)] *)
Definition suspend_delay (d : xtime) : prog :=
  w <- new_sig SKWake ;; let w := vnat w in
  Do (fun o a => if xpos d && xltb (onow o) (xadd (onow o) d) then okk o [KAfter d a (Some w)]
                 else err o EAssertion) ;;;
  Finally (Catch Hib (fun e => if is_sig e w then Ret VU else Raise e)) (Kop (fun _ _ => [KRevoke w])).
Definition suspend_at (t : xtime) : prog :=
  w <- new_sig SKWake ;; let w := vnat w in
  Do (fun o a => if xltb (onow o) t then okk o [KAt t a (Some w)] else err o EAssertion) ;;;
  Finally (Catch Hib (fun e => if is_sig e w then Ret VU else Raise e)) (Kop (fun _ _ => [KRevoke w])).

(** [Notification.__subscription__()] around [body] *)
Definition subscription (n : nid) (body : prog) : prog :=
  w <- new_sig SKWake ;; let w := vnat w in
  Dyn (fun _ a =>
    subscribe n a w ;;;
    Finally (Catch body (fun e => if is_sig e w then Ret VU else Raise e)) (unsubscribe n a w)).

(** [Notification.__await__] *)
Definition notif_await (n : nid) : prog := subscription n Hib.

(** [Condition.__await__] *)
Definition cond_await (n : nid) : prog :=
  Dyn (fun o _ => if cond_true o n then postpone else Ret VU) ;;;
  While (fun o => negb (cond_true o n)) (notif_await n).

(** [After.__await__] *)
Definition after_await (n : nid) (d : xtime) : prog :=
  Dyn (fun o _ => if cond_true o n then postpone
                  else Do (fun o _ => ensure_trigger o n d) ;;; notif_await n).

Fixpoint with_subs (cs : list nid) (body : prog) : prog :=
  match cs with
  | [] => body
  | c :: r => subscription c (with_subs r body)
  end.

(** [Connective.__await_children__] *)
Definition conn_await (n : nid) : prog :=
  postpone ;;;
  While (fun o => negb (cond_true o n)) (Dyn (fun o _ => with_subs (pending_children o n) Hib)).

(** [await notification], by class *)
Definition await_n (n : nid) : prog :=
  Dyn (fun o _ =>
    match nk (get_notif o n) with
    | NPlain | NDelay _ => notif_await n
    | NAfter d => after_await n d
    | NBefore _ => if cond_true o n then postpone else Hib
    | NMoment d na =>
        if xeqb (onow o) d then postpone
        else if negb (cond_true o na) then after_await na d
        else Hib
    | NEternity => Hib
    | NInstant => postpone
    | NAll _ | NAny _ => conn_await n
    | _ => cond_await n
    end).

(** ** Flag / Tracked *)
(** [Flag.set(to)] *)
Definition flag_set_sync (o : objs) (f : nat) (to : bool) : objs * list kop :=
  let x := get_flag o f in
  if to && negb (fval x) then awake_all (o <| flags := list_upd (flags o) f (x <| fval := true |>) |>) (fnid x)
  else if fval x && negb to then awake_all (o <| flags := list_upd (flags o) f (x <| fval := false |>) |>) (finv x)
  else (o, []).
Definition flag_set (f : nat) (to : bool) : prog :=
  Do (fun o _ => let '(o', ks) := flag_set_sync o f to in okk o' ks) ;;; postpone.

(** [Tracked.set(to)]: assign, then every listener whose test holds is triggered, in registration order *)
Definition tracked_set_sync (o : objs) (v : nat) (z : Z) : objs * list kop :=
  let x := get_track o v in
  let o1 := o <| tracked := list_upd (tracked o) v (x <| tval := z |>) |> in
  fold_left (fun '(o', ks) n => if cond_true o' n then let '(o'', ks') := awake_all o' n in (o'', ks ++ ks')
                                else (o', ks))
            (tlisteners x) (o1, []).
Definition tracked_set (v : nat) (z : Z) : prog :=
  Do (fun o _ => let '(o', ks) := tracked_set_sync o v z in okk o' ks) ;;; postpone.
Definition tracked_add (v : nat) (z : Z) : prog :=
  Dyn (fun o _ => tracked_set v (tval (get_track o v) + z)).

Definition add_listener (o : objs) (v : nat) (n : nid) : objs :=
  let x := get_track o v in o <| tracked := list_upd (tracked o) v (x <| tlisteners := tlisteners x ++ [n] |>) |>.

(** ** Lock *)
(** [Lock.__release__] *)
Definition lock_release (o : objs) (l : nat) : objs * list kop :=
  let x := get_lock o l in
  match awake_next o (l_notif x) with
  | (o', ks, None) => (set_lock o' l (x <| l_owner := None |>), ks)
  | (o', ks, Some (cand, _)) => (set_lock o' l (x <| l_owner := Some cand |>), ks)
  end.
Definition owner_is (o : objs) (l : nat) (a : aid) : bool :=
  match l_owner (get_lock o l) with Some b => Nat.eqb a b | None => false end.
(** [Lock.__aenter__] *)
Definition lock_enter (l : nat) : prog :=
  Dyn (fun o a =>
    (match l_owner (get_lock o l) with
     | None => Upd (fun o => set_lock o l ((get_lock o l) <| l_owner := Some a |>))
     | Some b =>
         if Nat.eqb a b then Ret VU
         else Catch (await_n (l_notif (get_lock o l)))
                    (fun e => Do (fun o _ => if owner_is o l a
                                             then let '(o', ks) := lock_release o l in okk o' ks
                                             else oku o) ;;; Raise e)
     end) ;;;
    Upd (fun o => let x := get_lock o l in set_lock o l (x <| l_depth := (l_depth x + 1)%Z |>))).
(** [Lock.__aexit__(exc_type, ...)] (never swallows).  The debugging assertion
    [exc_type is GeneratorExit or owner == loop.activity] is part of the behaviour: it fails when a holder
    that is being closed by another activity leaves the block with an exception other than GeneratorExit
    (known finding D14). *)
Definition lock_exit (l : nat) (exc : option exn) : prog :=
  Do (fun o a =>
        let x := get_lock o l in
        let ok := match exc with Some EGenExit => true | _ => owner_is o l a end in
        if negb ok then err o EAssertion
        else
        let o1 := set_lock o l (x <| l_depth := (l_depth x - 1)%Z |>) in
        if (l_depth x - 1 =? 0)%Z then let '(o', ks) := lock_release o1 l in okk o' ks else oku o1).
(** [async with lock: body] *)
Definition with_lock (l : nat) (body : prog) : prog :=
  lock_enter l ;;;
  v <- Catch body (fun e => lock_exit l (Some e) ;;; Raise e) ;;
  lock_exit l None ;;; Ret v.
(** [Lock.available] *)
Definition lock_available (o : objs) (l : nat) (a : aid) : bool :=
  match l_owner (get_lock o l) with None => true | Some b => Nat.eqb a b end.

(** ** Queue *)
(** [Queue.put] *)
Definition queue_put (q : nat) (z : Z) : prog :=
  Do (fun o _ =>
        let x := get_queue o q in
        if q_closed x then err o (EStreamClosed q)
        else let o1 := set_queue o q (x <| q_buf := q_buf x ++ [z] |>) in
             let '(o2, ks, _) := awake_next o1 (q_notif x) in okk o2 ks) ;;;
  postpone.
(** [Queue.close] *)
Definition queue_close (q : nat) : prog :=
  Do (fun o _ =>
        let x := get_queue o q in
        if q_closed x then oku o
        else let '(o1, ks) := awake_all (set_queue o q (x <| q_closed := true |>)) (q_notif x) in okk o1 ks) ;;;
  postpone.
Definition queue_pop (q : nat) : prog :=
  Do (fun o _ =>
        let x := get_queue o q in
        match q_buf x with
        | z :: r => okv (set_queue o q (x <| q_buf := r |>)) (VZ z)
        | [] => err o (EStreamClosed q)     (* assert self._closed *)
        end).
(** [Queue._await_message] *)
Definition queue_get (q : nat) : prog :=
  Dyn (fun o _ =>
    with_lock (q_mutex (get_queue o q))
      (Dyn (fun o _ =>
         let x := get_queue o q in
         match q_buf x with
         | _ :: _ => postpone ;;; queue_pop q
         | [] => if q_closed x then Raise (EStreamClosed q)
                 else await_n (q_notif x) ;;; queue_pop q
         end))).

(** ** Task *)
(** [Done.__set_done__] *)
Definition set_done (o : objs) (t : tid) : objs * list kop :=
  let x := get_task o t in
  awake_all (set_task o t (x <| t_doneval := true |>)) (t_done x).

(** [Scope.__child_finished__(child, failed)] *)
Fixpoint remove_nat (x : nat) (l : list nat) : list nat :=
  match l with [] => [] | y :: r => if Nat.eqb x y then r else y :: remove_nat x r end.
Definition child_finished (o : objs) (t : tid) (failed : bool) : objs * list kop :=
  let x := get_task o t in
  let sc := t_parent x in
  let s := get_scope o sc in
  let '(s1, ks) :=
    if failed then
      (s <| s_failures := s_failures s ++ match t_result x with Some (OExn e) => [e] | _ => [] end |>,
       if s_interruptable s then [KNow (s_owner s) (Some (s_cancel s))] else [])
    else (s, []) in
  let s2 := if t_volatile x then s1 <| s_volatile := remove_nat t (s_volatile s1) |>
            else s1 <| s_children := remove_nat t (s_children s1) |> in
  (set_scope o sc s2, ks).

Definition sig_kind (o : objs) (s : sid) : sigkind := nth s (sigs o) SKWake.

(** [payload_wrapper] of [Task.__init__] *)
Inductive startspec := StartNow | StartAfter (d : xtime) | StartAt (t : xtime).

Definition task_finish (t : tid) (r : option outcome) (failed : bool) : prog :=
  Do (fun o _ =>
        let x := get_task o t in
        let o1 := match r with Some r' => set_task o t (x <| t_result := Some r' |>) | None => o end in
        let '(o2, ks) := child_finished o1 t failed in okk o2 ks).

Definition task_wrapper (t : tid) (start : startspec) (payload : prog) : prog :=
  Dyn (fun o _ =>
    match t_result (get_task o t) with
    | Some _ =>
        (* cancelled or closed before the first activation: the payload never runs *)
        task_finish t None false
    | None =>
        Catch ((match start with
                | StartNow => Ret VU
                | StartAfter d => suspend_delay d
                | StartAt d => suspend_at d
                end) ;;;
               v <- payload ;; task_finish t (Some (OVal v)) false)
              (fun e =>
                 Dyn (fun o _ =>
                   match e with
                   | ESig s =>
                       match sig_kind o s with
                       | SKCancelTask t' tok => task_finish t (Some (OExn (ETaskCancelled t' tok))) false
                       | _ => task_finish t (Some (OExn e)) true
                       end
                   | EGenExit => task_finish t None false
                   | _ => task_finish t (Some (OExn e)) true
                   end)) ;;;
        Do (fun o _ =>
              let x := get_task o t in
              let '(o1, ks) := set_done o t in
              okk o1 (map KRevoke (t_cancels x) ++ ks))
    end).

(** [Task.cancel(token...)] *)
Definition task_cancel (t : tid) (tok : Z) : prog :=
  Do (fun o _ =>
        let x := get_task o t in
        match t_result x with
        | Some _ => oku o
        | None =>
            match nth (t_runner x) (astat o) AsDead with
            | AsNew =>
                let o1 := set_task o t (x <| t_result := Some (OExn (ETaskCancelled t tok)) |>) in
                let '(o2, ks) := set_done o1 t in okk o2 ks
            | _ =>
                let s := length (sigs o) in
                let o1 := o <| sigs := sigs o ++ [SKCancelTask t tok] |> in
                okk (set_task o1 t (x <| t_cancels := t_cancels x ++ [s] |>))
                    [KMark s; KNow (t_runner x) (Some s)]
            end
        end).

(** [Task.__close__(reason)] *)
Definition task_close (t : tid) (reason : exn) : prog :=
  Dyn (fun o _ =>
    let x := get_task o t in
    match t_result x with
    | Some _ => Ret VU
    | None =>
        Upd (fun o => set_task o t ((get_task o t) <| t_result := Some (OExn reason) |>)) ;;;
        match nth (t_runner x) (astat o) AsDead with
        | AsNew => Do (fun o _ => let '(o1, ks) := set_done o t in okk o1 ks)
        | _ => CloseAct (t_runner x)
        end
    end).

(** [Task.__await__] *)
Definition task_await (t : tid) : prog :=
  Dyn (fun o _ => cond_await (t_done (get_task o t))) ;;;
  Dyn (fun o _ => match t_result (get_task o t) with
                  | Some (OVal v) => Ret v
                  | Some (OExn e) => Raise e
                  | None => Raise (ERuntime 8)
                  end).

(** ** Scope *)
(** user class 3 is AssertionError, 4 is KeyboardInterrupt; [EAssertion] is an AssertionError raised by
    an assertion inside the library *)
Definition exn_is_promoted (e : exn) : bool :=      (* isinstance(exc, PROMOTE_CONCURRENT) *)
  match e with EUser 3 _ | EUser 4 _ | EAssertion => true | _ => false end.
Definition exn_type_promoted (e : exn) : bool := exn_is_promoted e.   (* exc_type in PROMOTE_CONCURRENT *)
Definition exn_is_suppressed (e : exn) : bool :=    (* isinstance(exc, SUPPRESS_CONCURRENT) *)
  match e with ETaskCancelled _ _ | ETaskClosed _ | EVolatileClosed _ | EGenExit => true | _ => false end.

(** [Scope._collect_exceptions] *)
Fixpoint collect_exceptions (fs : list exn) (acc : list exn) : option exn * list exn :=
  match fs with
  | [] => (None, acc)
  | e :: r => if exn_is_promoted e then (Some e, [])
              else if exn_is_suppressed e then collect_exceptions r acc
              else collect_exceptions r (acc ++ [e])
  end.

Definition is_suppressed_sig (s : scoperec) (e : exn) : bool :=   (* [_is_suppressed] *)
  match e with
  | ESig x => Nat.eqb x (s_cancel s) || match s_until s with Some (_, i) => Nat.eqb x i | None => false end
  | _ => false
  end.

(** [Scope._propagate_exceptions] as a pure function of the recorded child failures, whether the exception
    leaving the body is one of the scope's own signals ([_is_suppressed]), and that exception *)
Inductive presult := PSwallow | PReraise | PRaise (e : exn).
Definition propagate_pure (failures : list exn) (own_signal : bool) (exc : option exn) : presult :=
  match exc with
  | Some e =>
      if exn_type_promoted e then PReraise
      else if own_signal then
             match collect_exceptions failures [] with
             | (Some p, _) => PRaise p
             | (None, []) => PSwallow
             | (None, l) => PRaise (EConcurrent l)
             end
           else match collect_exceptions failures [] with
                | (Some p, _) => PRaise p
                | _ => PReraise
                end
  | None =>
      match collect_exceptions failures [] with
      | (Some p, _) => PRaise p
      | (None, []) => PSwallow
      | (None, l) => PRaise (EConcurrent l)
      end
  end.

(** VB true = re-raise the body's exception, VB false = swallow, or raises the privileged / concurrent exception *)
Definition propagate (sc : scid) (exc : option exn) : prog :=
  Do (fun o _ =>
        let s := get_scope o sc in
        let own := match exc with Some e => is_suppressed_sig s e | None => false end in
        match propagate_pure (s_failures s) own exc with
        | PSwallow => okv o (VB false)
        | PReraise => okv o (VB true)
        | PRaise (EConcurrent l) =>
            (* Concurrent(...) asserts that its children are Exception (or Concurrent) instances; an internal
               signal recorded as a child failure (only possible downstream of finding D11) trips it *)
            if existsb (fun e => match e with ESig _ | EGenExit | EBreak => true | _ => false end) l
            then err o EAssertion else err o (EConcurrent l)
        | PRaise p => err o p
        end).

(** close every task of a list (a copy taken before), in order *)
Fixpoint close_tasks (ts : list tid) (reason : exn) : prog :=
  match ts with
  | [] => Ret VU
  | t :: r => task_close t reason ;;; close_tasks r reason
  end.

(** [Scope._close_scope] (with [InterruptScope._disable_interrupts]) *)
Definition close_scope (sc : scid) : prog :=
  Do (fun o _ =>
        let s := get_scope o sc in
        let '(o1, ks) := match s_until s with
                         | Some (n, i) => unsubscribe_pair o n (s_owner s) i
                         | None => (o, [])
                         end in
        okk (set_scope o1 sc ((get_scope o1 sc) <| s_interruptable := false |>)) (ks ++ [KRevoke (s_cancel s)])) ;;;
  Dyn (fun o _ => close_tasks (s_children (get_scope o sc)) (ETaskClosed sc)) ;;;
  Dyn (fun o _ => close_tasks (s_volatile (get_scope o sc)) (EVolatileClosed sc)).

(** [Scope._await_children]: while children: for child in children[:]: await child.done *)
Fixpoint await_dones (ts : list tid) : prog :=
  match ts with
  | [] => Ret VU
  | t :: r => Dyn (fun o _ => cond_await (t_done (get_task o t))) ;;; await_dones r
  end.
Definition await_children (sc : scid) : prog :=
  While (fun o => match s_children (get_scope o sc) with [] => false | _ => true end)
        (Dyn (fun o _ => await_dones (s_children (get_scope o sc)))).

(** [Scope.__aexit__(None, None, None)] *)
Definition scope_exit_ok (sc : scid) : prog :=
  r <- Catch (Dyn (fun o _ => flag_set (s_bodydone (get_scope o sc)) true) ;;; await_children sc ;;; Ret (VB true))
             (fun err => close_scope sc ;;; b <- propagate sc (Some err) ;;
                         if vbool b then Raise err else Ret (VB false)) ;;
  if vbool r then close_scope sc ;;; propagate sc None ;;; Ret VU else Ret VU.

(** [Scope.__aexit__(exc_type, exc_val, tb)]: VB true = swallow *)
Definition scope_exit_exn (sc : scid) (e : exn) : prog :=
  Do (fun o _ =>
        let f := s_bodydone (get_scope o sc) in
        let x := get_flag o f in
        let '(o1, ks) := awake_all (o <| flags := list_upd (flags o) f (x <| fval := true |>) |>) (fnid x) in
        okk o1 ks) ;;;
  close_scope sc ;;;
  b <- propagate sc (Some e) ;; Ret (VB (negb (vbool b))).

(** allocate a scope object ([Scope.__init__] + [__aenter__]) *)
Definition alloc_flag (o : objs) : objs * nat :=
  let f := length (flags o) in
  let '(o1, n1) := alloc_notif o (NFlag f) in
  let '(o2, n2) := alloc_notif o1 (NInvFlag f) in
  (o2 <| flags := flags o2 ++ [{| fval := false; fnid := n1; finv := n2 |}] |>, f).

Definition alloc_scope (name : nat) (until : option nid) : prog :=
  Do (fun o a =>
        let sc := length (scopes o) in
        let '(o1, f) := alloc_flag o in
        let cs := length (sigs o1) in
        let o2 := o1 <| sigs := sigs o1 ++ [SKCancelScope sc] |> in
        let '(o3, u) := match until with
                        | Some n => (o2 <| sigs := sigs o2 ++ [SKUntil sc] |>, Some (n, S cs))
                        | None => (o2, None)
                        end in
        okv (o3 <| scopes := scopes o3 ++ [{| s_owner := a; s_children := []; s_volatile := [];
                                              s_failures := []; s_bodydone := f; s_interruptable := true;
                                              s_cancel := cs; s_until := u; s_env := false |}] |>
                <| snames := (name, sc) :: snames o3 |>) (VN sc)).

(** [async with Scope() / until(n): body] *)
Definition scope_block (name : nat) (until : option nid) (body : prog) : prog :=
  sc <- alloc_scope name until ;; let sc := vnat sc in
  Dyn (fun o a =>
    match s_until (get_scope o sc) with
    | Some (n, i) => subscribe n a i          (* InterruptScope.__aenter__ *)
    | None => Ret VU
    end) ;;;
  r <- Catch (body ;;; Ret (VB true))
             (fun e => b <- scope_exit_exn sc e ;; if vbool b then Ret (VB false) else Raise e) ;;
  if vbool r then scope_exit_ok sc else Ret VU.

(** [Scope.do(payload, after=, at=, volatile=)] *)
Definition scope_do (sc : scid) (tname : nat) (start : startspec) (volatile : bool) (payload : prog) : prog :=
  Do (fun o _ =>
        let s := get_scope o sc in
        if negb (s_interruptable s) then err o EScopeClosed
        else
          let start' := match start with
                        | StartAfter d => if xeqb d (Fin 0) then StartNow else start
                        | StartAt d => if xeqb d (onow o) then StartNow else start
                        | StartNow => StartNow
                        end in
          let bad := match start' with
                     | StartAfter d => negb (xpos d)
                     | StartAt d => negb (xltb (onow o) d)
                     | StartNow => false
                     end in
          if bad then err o EAssertion
          else
            let t := length (tasks o) in
            let a := length (astat o) in
            let '(o1, n1) := alloc_notif o (NDone t) in
            let '(o2, n2) := alloc_notif o1 (NNotDone t) in
            let rec := {| t_name := tname; t_parent := sc; t_volatile := volatile; t_result := None;
                          t_runner := a; t_done := n1; t_notdone := n2; t_doneval := false; t_cancels := [] |} in
            let s' := if volatile then s <| s_volatile := s_volatile s ++ [t] |>
                      else s <| s_children := s_children s ++ [t] |> in
            let o3 := set_scope (o2 <| tasks := tasks o2 ++ [rec] |> <| tnames := (tname, t) :: tnames o2 |>) sc s' in
            mkpres o3 [KNow a None] [(a, task_wrapper t start' payload)] (inl (VN t))).

(** ** allocation of locks / queues / channels *)
Definition alloc_lock (o : objs) : objs :=
  let '(o1, n) := alloc_notif o NPlain in
  o1 <| locks := locks o1 ++ [{| l_owner := None; l_depth := 0%Z; l_notif := n |}] |>.

Definition alloc_queue (o : objs) : objs :=
  let '(o1, n) := alloc_notif o NPlain in
  let m := length (locks o1) in
  let o2 := alloc_lock o1 in
  o2 <| queues := queues o2 ++ [{| q_buf := []; q_notif := n; q_mutex := m; q_closed := false |}] |>.


Definition dchan : chanrec := {| c_bufs := []; c_notif := 0; c_closed := false; c_next := 0 |}.
Definition get_chan (o : objs) c := nth c (chans o) dchan.
Definition set_chan (o : objs) c x : objs := o <| chans := list_upd (chans o) c x |>.
Definition alloc_chan (o : objs) : objs :=
  let '(o1, n) := alloc_notif o NPlain in
  o1 <| chans := chans o1 ++ [{| c_bufs := []; c_notif := n; c_closed := false; c_next := 0 |}] |>.

(** ** async iteration *)
(** [async for x in G: body x] -- the generator object is finalised as soon as the loop is left
    (CPython reference counting; no asyncgen hooks are installed by usim's loop) *)
Definition For (G : prog) (body : val -> prog) : prog :=
  g <- GenNew G ;; let g := vnat g in
  r <- Catch (LoopS VU (fun _ => v <- GenNext g ;;
                                 match v with
                                 | VYield x => body x ;;; Ret (VCont VU)
                                 | _ => Ret (VBreak VU)
                                 end))
             (fun e => GenClose g ;;; match e with EBreak => Ret VU | _ => Raise e end) ;;
  GenClose g ;;; Ret r.

(** the same with `if iterations == n: break` at the end of the body (n = 0: no limit) *)
Definition ForN (G : prog) (n : nat) (body : val -> prog) : prog :=
  g <- GenNew G ;; let g := vnat g in
  r <- Catch (LoopS (VN 0) (fun i => v <- GenNext g ;;
                                 match v with
                                 | VYield x => body x ;;;
                                               (if negb (Nat.eqb n 0) && Nat.leb n (S (vnat i)) then Ret (VBreak VU)
                                                else Ret (VCont (VN (S (vnat i)))))
                                 | _ => Ret (VBreak VU)
                                 end))
             (fun e => GenClose g ;;; match e with EBreak => Ret VU | _ => Raise e end) ;;
  GenClose g ;;; Ret r.

(** [Queue.__aiter__] *)
Definition queue_iter (q : nat) : prog :=
  LoopS VU (fun _ =>
    r <- Catch (v <- queue_get q ;; Ret (VYield v))
               (fun e => match e with EStreamClosed _ => Ret VEnd | _ => Raise e end) ;;
    match r with
    | VYield v => Yield v ;;; Ret (VCont VU)
    | _ => Ret (VBreak VU)
    end).

(** [interval(period)] *)
Definition interval_gen (p : xtime) : prog :=
  if xltb p (Fin 0) then Raise EValueError
  else
  Dyn (fun o _ =>
    LoopS (VX (onow o)) (fun last =>
      Dyn (fun o _ =>
        let last := match last with VX t => t | _ => Fin 0 end in
        let target := xadd last p in
        (* remaining_delay = last_time + period - time.now *)
        (if xltb target (onow o) then Raise EIntervalExceeded
         else if xltb (onow o) target then suspend_delay (xsub target (onow o))
         else postpone) ;;;
        Dyn (fun o _ => Yield (VX (onow o)) ;;; Ret (VCont (VX (onow o))))))).

(** [delay(period)] *)
Definition delay_gen (p : xtime) : prog :=
  if xltb p (Fin 0) then Raise EValueError
  else
  LoopS VU (fun _ =>
    (if xltb (Fin 0) p then suspend_delay p else postpone) ;;;
    Dyn (fun o _ => Yield (VX (onow o)) ;;; Ret (VCont VU))).

(** ** Channel *)
Definition chan_put (c : nat) (z : Z) : prog :=
  Do (fun o _ =>
        let x := get_chan o c in
        if c_closed x then err o (EStreamClosed (1000 + c))
        else let o1 := set_chan o c (x <| c_bufs := map (fun '(k, b) => (k, b ++ [z])) (c_bufs x) |>) in
             let '(o2, ks) := awake_all o1 (c_notif x) in okk o2 ks) ;;;
  postpone.
Definition chan_close (c : nat) : prog :=
  Do (fun o _ =>
        let x := get_chan o c in
        if c_closed x then oku o
        else let '(o1, ks) := awake_all (set_chan o c (x <| c_closed := true |>)) (c_notif x) in okk o1 ks) ;;;
  postpone.
Definition chan_register (c : nat) : prog :=
  Do (fun o _ => let x := get_chan o c in
                 okv (set_chan o c (x <| c_bufs := c_bufs x ++ [(c_next x, [])] |> <| c_next := S (c_next x) |>))
                     (VN (c_next x))).
Definition chan_unregister (c : nat) (k : nat) : prog :=
  Upd (fun o => let x := get_chan o c in
                set_chan o c (x <| c_bufs := filter (fun '(k', _) => negb (Nat.eqb k k')) (c_bufs x) |>)).
Definition chan_buf (o : objs) (c k : nat) : list Z :=
  match assoc_nat k (c_bufs (get_chan o c)) with Some b => b | None => [] end.
(** [Channel.__await__] *)
Definition chan_get (c : nat) : prog :=
  Dyn (fun o _ =>
    if c_closed (get_chan o c) then Raise (EStreamClosed (1000 + c))
    else
      k <- chan_register c ;; let k := vnat k in
      (* the buffer object survives the `del`: read it before unregistering *)
      r <- Catch (notif_await (c_notif (get_chan o c)) ;;; Dyn (fun o _ =>
                    match chan_buf o c k with
                    | z :: _ => Ret (VZ z)
                    | [] => Ret (VB (c_closed (get_chan o c)))
                    end))
                 (fun e => chan_unregister c k ;;; Raise e) ;;
      chan_unregister c k ;;;
      match r with
      | VZ z => Ret (VZ z)
      | VB true => Raise (EStreamClosed (1000 + c))
      | _ => Raise (ERuntime 7)     (* IndexError: woken without a message *)
      end).
(** [Channel.__aiter__] (with fix D15: one suspension before every message) *)
Definition chan_pop (c k : nat) : prog :=
  Do (fun o _ =>
        match chan_buf o c k with
        | z :: r =>
            let x := get_chan o c in
            okv (set_chan o c (x <| c_bufs := map (fun '(k', b) => if Nat.eqb k k' then (k', r) else (k', b)) (c_bufs x) |>))
                (VZ z)
        | [] => err o (ERuntime 7)
        end).
Definition chan_iter (c : nat) : prog :=
  k <- chan_register c ;; let k := vnat k in
  Finally
    (LoopS VU (fun _ =>
       Dyn (fun o _ =>
         match chan_buf o c k with
         | _ :: _ => postpone ;;; v <- chan_pop c k ;; Yield v ;;; Ret (VCont VU)
         | [] => if c_closed (get_chan o c) then Ret (VBreak VU)
                 else notif_await (c_notif (get_chan o c)) ;;;
                      Dyn (fun o _ => match chan_buf o c k with
                                      | [] => Ret (VCont VU)
                                      | _ => v <- chan_pop c k ;; Yield v ;;; Ret (VCont VU)
                                      end)
         end)))
    (chan_unregister c k).

(** ** collect / first (usim/_concurrent/basics.py) *)
(** [Scope.do] for the tasks created inside [collect]/[first]: not reachable by name from scenario code *)
Definition scope_do_anon (sc : scid) (tname : nat) (volatile : bool) (payload : prog) : prog :=
  t <- scope_do sc tname StartNow volatile payload ;;
  Upd (fun o => o <| tnames := tl (tnames o) |>) ;;; Ret t.

Fixpoint spawn_all (sc : scid) (volatile : bool) (acts : list (nat * prog)) (wrap : prog -> prog) : prog :=
  match acts with
  | [] => Ret VU
  | (tn, p) :: r => scope_do_anon sc tn volatile (wrap p) ;;; spawn_all sc volatile r wrap
  end.

(** results of the tasks [t0, t0 + n) in order: [[await task for task in tasks]] *)
Fixpoint await_all (ts : list tid) (acc : list val) : prog :=
  match ts with
  | [] => Ret VU
  | t :: r => task_await t ;;; await_all r acc
  end.

(** [first(activities..., count=k)] as a generator body *)
Definition first_gen (scname : nat) (k : option nat) (acts : list (nat * prog)) : prog :=
  let count := match k with Some c => c | None => length acts end in
  if Nat.ltb (length acts) count then Raise EValueError
  else
    q <- Do (fun o _ => okv (alloc_queue o) (VN (length (queues o)))) ;; let q := vnat q in
    scope_block scname None
      (Dyn (fun o _ =>
         match assoc_nat scname (snames o) with
         | Some sc => spawn_all sc true acts (fun p => v <- p ;; queue_put q (match v with VZ z => z | _ => 0%Z end))
         | None => Ret VU
         end) ;;;
       (* a.islice(results, count) *)
       match count with
       | O => Ret VU
       | S _ =>
           g <- GenNew (queue_iter q) ;; let g := vnat g in
           Finally
             (LoopS (VN 0) (fun idx =>
                v <- GenNext g ;;
                match v with
                | VYield x => Yield x ;;; (if Nat.leb count (S (vnat idx)) then Ret (VBreak VU) else Ret (VCont (VN (S (vnat idx)))))
                | _ => Ret (VBreak VU)
                end))
             (GenClose g)
       end).

(** ** Resources (usim/_basics/resource.py), for resource types with ONE named resource: the level vector is a
    single number held in a [Tracked] cell; comparisons `resources._available >= debits` are [AsyncComparison]s
    on that cell (a fresh comparison object, registered as listener, for every evaluation) *)
Definition dres : resrec := {| r_parent := None; r_debits := []; r_avail := 0 |}.
Definition get_res (o : objs) r := nth r (ress o) dres.
Definition res_debit (o : objs) r : Z := match r_debits (get_res o r) with d :: _ => d | [] => 0%Z end.
Definition res_level (o : objs) r : Z := tval (get_track o (r_avail (get_res o r))).

(** evaluate `tracked OP z`: a new comparison object listening on the cell *)
Definition new_cmp (o : objs) (v : nat) (op : cmpop) (z : Z) : objs * nid :=
  let '(o1, m) := alloc_notif o (NCmp v op z) in (add_listener o1 v m, m).

(** [BaseResources.__insert_resources__] / [__remove_resources__] *)
Definition res_insert (r : nat) (amt : Z) : prog :=
  Dyn (fun o _ => tracked_set (r_avail (get_res o r)) (res_level o r + amt)).
Definition res_remove (r : nat) (amt : Z) : prog :=
  Dyn (fun o _ => tracked_set (r_avail (get_res o r)) (res_level o r - amt)).

(** [BorrowedResources.__release_nowait__(held)]: two new activities, started later in this time step *)
Definition release_nowait (s : nat) (held : Z) : prog :=
  Do (fun o _ =>
        let a1 := length (astat o) in
        let p := match r_parent (get_res o s) with Some p => p | None => 0 end in
        let d := res_debit o s in
        mkpres o [KNow a1 None; KNow (S a1) None] [(a1, res_remove s held); (S a1, res_insert p d)] (inl VU)).

(** `resources.borrow(a=d)` / `.claim(a=d)`: the BorrowedResources object (no suspension) *)
Definition res_borrow_obj (p : nat) (d : Z) : prog :=
  Do (fun o _ =>
        if (d <? 0)%Z then err o EAssertion                        (* cannot borrow negative amounts *)
        else if match r_parent (get_res o p) with Some _ => (res_debit o p <? d)%Z | None => false end
        then err o EAssertion                                       (* cannot borrow beyond capacity *)
        else
          let t := length (tracked o) in
          let s := length (ress o) in
          okv (o <| tracked := tracked o ++ [{| tval := 0%Z; tlisteners := [] |}] |>
                 <| ress := ress o ++ [{| r_parent := Some p; r_debits := [d]; r_avail := t |}] |>) (VN s)).

(** [BorrowedResources.__aenter__] *)
Definition borrow_enter (s : nat) : prog :=
  Dyn (fun o _ =>
    let p := match r_parent (get_res o s) with Some p => p | None => 0 end in
    let d := res_debit o s in
    let pv := r_avail (get_res o p) in
    c1 <- Do (fun o _ => let '(o1, m) := new_cmp o pv Ge d in okv o1 (VN m)) ;;
    Dyn (fun o _ =>
      if cond_true o (vnat c1) then Ret VU
      else c2 <- Do (fun o _ => let '(o1, m) := new_cmp o pv Ge d in okv o1 (VN m)) ;; await_n (vnat c2)) ;;;
    Catch (res_remove p d ;;; res_insert s d)
          (fun e => Dyn (fun o _ => release_nowait s (res_level o s)) ;;; Raise e)).

(** [BorrowedResources.__aexit__] *)
Definition borrow_exit (s : nat) (exc : option exn) : prog :=
  Dyn (fun o _ =>
    let p := match r_parent (get_res o s) with Some p => p | None => 0 end in
    let d := res_debit o s in
    match exc with
    | Some EGenExit | Some (ESig _) => release_nowait s d      (* forceful close or interrupt (fix D20): no suspension *)
    | _ => Catch (res_remove s d) (fun e => release_nowait s 0%Z ;;; Raise e) ;;; res_insert p d
    end).

(** `async with resources.borrow(a=d) as share: body` *)
Definition with_borrow (p : nat) (d : Z) (claim : bool) (body : nat -> prog) : prog :=
  s <- res_borrow_obj p d ;; let s := vnat s in
  (if claim
   then Dyn (fun o _ =>
          let pv := r_avail (get_res o p) in
          c0 <- Do (fun o _ => let '(o1, m) := new_cmp o pv Ge d in okv o1 (VN m)) ;;
          Dyn (fun o _ => if cond_true o (vnat c0) then Ret VU else Raise EResUnavailable))
   else Ret VU) ;;;
  borrow_enter s ;;;
  v <- Catch (body s) (fun e => borrow_exit s (Some e) ;;; Raise e) ;;
  borrow_exit s None ;;; Ret v.

(** [Resources.increase / decrease / set] *)
Definition res_increase (r : nat) (d : Z) : prog :=
  if (d <? 0)%Z then Raise EAssertion else res_insert r d.
Definition res_decrease (r : nat) (d : Z) : prog :=
  if (d <? 0)%Z then Raise EAssertion
  else Dyn (fun o _ => if (res_level o r - d <? 0)%Z then Raise EAssertion else res_remove r d).
Definition res_set (r : nat) (v : Z) : prog :=
  if (v <? 0)%Z then Raise EAssertion else Dyn (fun o _ => tracked_set (r_avail (get_res o r)) v).
