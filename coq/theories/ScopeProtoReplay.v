(* Replay correspondence for ScopeProto (harness/scopecorr.py).

   A case = the kind of ONE real Scope / until(...) instance, the sequence of ScopeProto labels extracted from a
   run of the real library (instrumented from outside), and the facts observed on the real objects at the end of the
   run, encoded as lists of numbers:

     [phase] ; [interruptable; state of _cancel_self] ; one entry [vol; status; listed; ran] per payload ever
     passed to do()

   [bad_cases] = indices of the cases in which some label is not enabled ([run] = None) or the final state of the
   model differs from the observation.  [diagnose] renders the model side of one case (first disabled label, the
   state reached) for the report of a mismatch.  Nothing here is used by a theorem. *)
Require Import List Bool Arith.
Import ListNotations.
From Usim Require Import ScopeProto.

Definition enc_how (h : how) : nat :=
  match h with Success => 0 | Failed => 1 | CancelledInd => 2 | ClosedScope => 3 | ClosedVolatile => 4 | Discarded => 5 end.
Definition enc_st (c : cstatus) : nat :=
  match c with Created => 10 | Running => 11 | Done h => 20 + enc_how h end.
Definition enc_cause (c : cause) : nat :=
  match c with CGraceful => 0 | COwnCancel => 1 | COwnInterrupt => 2 | CBodyExc => 3 | CForeign => 4 end.
Definition enc_outcome (o : outcome) : nat :=
  match o with NoExc => 0 | ChildExc => 1 | BodyExc => 2 | ForeignExc => 3 end.
Definition enc_phase (p : phase) : list nat :=
  match p with
  | Body => [0] | SetDone => [1] | AwaitChildren => [2]
  | Closing c => [3; enc_cause c]
  | Exited c o => [4; enc_cause c; enc_outcome o]
  end.
Definition b2n (b : bool) : nat := if b then 1 else 0.
Definition enc_sig (x : sigst) : nat := match x with Idle => 0 | Scheduled => 1 | Revoked => 2 end.
Definition enc_child (c : child) : list nat := [b2n (vol c); enc_st (st c); b2n (listed c); b2n (ran c)].
Definition enc_state (s : state) : list (list nat) :=
  enc_phase (ph s) :: [b2n (interruptable s); enc_sig (cs s)] :: map enc_child (kids s).

Fixpoint list_beq {A} (eq : A -> A -> bool) (l1 l2 : list A) : bool :=
  match l1, l2 with
  | [], [] => true
  | x :: r1, y :: r2 => eq x y && list_beq eq r1 r2
  | _, _ => false
  end.

Definition rcase := (skind * list label * list (list nat))%type.

Definition case_ok (c : rcase) : bool :=
  match c with
  | (k, ls, obs) =>
      match run (init k) ls with
      | Some s => list_beq (list_beq Nat.eqb) (enc_state s) obs
      | None => false
      end
  end.

Fixpoint bad_from (i : nat) (cs : list rcase) : list nat :=
  match cs with
  | [] => []
  | c :: r => if case_ok c then bad_from (S i) r else i :: bad_from (S i) r
  end.
Definition bad_cases (cs : list rcase) : list nat := bad_from 0 cs.

(* the longest enabled prefix: (number of labels executed, state reached) *)
Fixpoint run_prefix (s : state) (ls : list label) (n : nat) : nat * state :=
  match ls with
  | [] => (n, s)
  | l :: r => match step s l with Some s' => run_prefix s' r (S n) | None => (n, s) end
  end.

(* [[labels executed; labels given]] followed by the encoded state reached *)
Definition diagnose (c : rcase) : list (list nat) :=
  match c with
  | (k, ls, _) => let '(n, s) := run_prefix (init k) ls 0 in [n; length ls] :: enc_state s
  end.

Lemma case_ok_run : forall k ls obs, case_ok (k, ls, obs) = true -> exists s, run (init k) ls = Some s /\ reachable k s.
Proof.
  intros k ls obs H. unfold case_ok in H. destruct (run (init k) ls) as [s|] eqn:E; [|discriminate].
  exists s. split; [reflexivity|]. eapply reachable_run; [apply r_init|exact E].
Qed.
