(* Invariants of LockProto over ALL reachable states (every interleaving of requests, wake-up
   deliveries, foreign signals at any waiter, exits by any cause) and the C09 theorems. *)
From Coq Require Import List Bool Arith Lia Sorting.Sorted.
From Usim Require Import LockProto.
Import ListNotations.

(* ---------- helpers ---------- *)

Lemma upd_same {A} (f : aid -> A) a v : upd f a v a = v.
Proof. unfold upd. now rewrite Nat.eqb_refl. Qed.

Lemma upd_other {A} (f : aid -> A) a v b : b <> a -> upd f a v b = f b.
Proof. unfold upd. intros H. apply Nat.eqb_neq in H. now rewrite H. Qed.

Lemma mem_In a l : mem a l = true <-> In a l.
Proof.
  unfold mem. rewrite existsb_exists. split.
  - intros (x & Hx & E). apply Nat.eqb_eq in E. now subst.
  - intros H. exists a. split; auto. apply Nat.eqb_refl.
Qed.

Lemma mem_false a l : mem a l = false <-> ~ In a l.
Proof. rewrite <- mem_In. destruct (mem a l); split; congruence. Qed.

Lemma In_rem1 a b l : In b (rem1 a l) -> In b l.
Proof.
  induction l as [|c r IH]; cbn; auto. destruct (Nat.eqb_spec c a); cbn; intuition.
Qed.

Lemma In_rem1_neq a b l : b <> a -> In b l -> In b (rem1 a l).
Proof.
  intros N. induction l as [|c r IH]; cbn; auto. intros [->|H].
  - destruct (Nat.eqb_spec b a); [contradiction | now left].
  - destruct (Nat.eqb_spec c a); auto. right; auto.
Qed.

Lemma NoDup_rem1 a l : NoDup l -> NoDup (rem1 a l) /\ ~ In a (rem1 a l).
Proof.
  induction 1 as [|c r Hc Hr IH]; cbn.
  - split; [constructor | auto].
  - destruct (Nat.eqb_spec c a) as [->|N].
    + split; auto.
    + destruct IH as [I1 I2]. split.
      * constructor; auto. intros H. apply Hc. eapply In_rem1; eauto.
      * intros [E|H]; auto.
Qed.

Lemma rem1_notin a l : ~ In a l -> rem1 a l = l.
Proof.
  induction l as [|c r IH]; cbn; auto. intros H.
  destruct (Nat.eqb_spec c a) as [->|N]; [exfalso; auto|]. f_equal. apply IH. auto.
Qed.

Lemma SS_app {A} (R : A -> A -> Prop) l1 l2 :
  StronglySorted R (l1 ++ l2) <->
  StronglySorted R l1 /\ StronglySorted R l2 /\ (forall x y, In x l1 -> In y l2 -> R x y).
Proof.
  induction l1 as [|a l1 IH]; cbn.
  - split; [intros H; repeat split; auto; try constructor; intros ? ? [] | tauto].
  - split.
    + intros H. apply StronglySorted_inv in H as [H1 H2]. apply IH in H1 as (S1 & S2 & S3).
      rewrite Forall_forall in H2. repeat split; auto.
      * constructor; auto. apply Forall_forall. intros x Hx. apply H2. apply in_or_app; auto.
      * intros x y [<-|Hx] Hy; auto. apply H2. apply in_or_app; auto.
    + intros (S1 & S2 & S3). apply StronglySorted_inv in S1 as [S1 S1'].
      constructor.
      * apply IH. repeat split; auto.
      * rewrite Forall_forall in *. intros x Hx. apply in_app_or in Hx as [Hx|Hx]; auto.
Qed.

Lemma SS_map_rem1 (R : nat -> nat -> Prop) (f : aid -> nat) a l :
  StronglySorted R (map f l) -> StronglySorted R (map f (rem1 a l)).
Proof.
  induction l as [|c r IH]; cbn; auto. intros H. apply StronglySorted_inv in H as [H1 H2].
  destruct (Nat.eqb_spec c a); auto. cbn. constructor; auto.
  rewrite Forall_forall in *. intros x Hx. apply H2. rewrite in_map_iff in *.
  destruct Hx as (y & <- & Hy). exists y. split; auto. eapply In_rem1; eauto.
Qed.

Lemma map_upd_notin (f : aid -> nat) a v l : ~ In a l -> map (upd f a v) l = map f l.
Proof.
  intros H. apply map_ext_in. intros b Hb. apply upd_other. intros ->. auto.
Qed.

(* ---------- the invariant ---------- *)

Definition inv_owner (s : st) : Prop :=
  match owner s with
  | None => depth s = 0 /\ waiting s = [] /\ woken s = [] /\ (forall a n, ph s a <> Inside n)
  | Some o =>
      (forall a n, ph s a = Inside n -> a = o) /\
      match ph s o with
      | Inside n => n = depth s /\ 1 <= n /\ woken s = [] /\ exists g, grants s = g ++ [tick s o]
      | Waiting => woken s = [o] /\ depth s = 0
      | Idle => False
      end
  end.

Record inv (s : st) : Prop := {
  iA : forall a, ph s a = Waiting <-> In a (pendq s);
  iB : NoDup (pendq s);
  iC : inv_owner s;
  iD1 : StronglySorted lt (grants s);
  iD2 : forall g b, In g (grants s) -> In b (pendq s) -> g < tick s b;
  iD3 : StronglySorted lt (map (tick s) (pendq s));
  iD4 : forall g, In g (grants s) -> g < ntick s;
  iD5 : forall b, In b (pendq s) -> tick s b < ntick s
}.

Lemma inv_init : inv init.
Proof.
  constructor; cbn.
  all: try (intros; contradiction); try constructor.
  all: try (intros; contradiction).
  - discriminate.
  - reflexivity.
  - repeat split; intros; discriminate.
Qed.

Lemma NoDup_snoc (a : aid) l : NoDup l -> ~ In a l -> NoDup (l ++ [a]).
Proof.
  induction 1 as [|c r Hc Hr IH]; cbn; intros N.
  - constructor; auto. constructor.
  - constructor.
    + rewrite in_app_iff. cbn. intuition.
    + apply IH. auto.
Qed.

Lemma inv_request s a s' : inv s -> step s (Request a) = Some s' -> inv s'.
Proof.
  intros I H. cbn in H. destruct I as [A B C D1 D2 D3 D4 D5].
  unfold inv_owner in C.
  destruct (ph s a) eqn:Pa; try discriminate; destruct (owner s) as [o|] eqn:Eo; try discriminate.
  - (* Idle, busy: enqueue *)
    destruct (Nat.eqb_spec o a) as [|N]; [discriminate|]. injection H as <-.
    assert (Na : ~ In a (pendq s)) by (rewrite <- A; congruence).
    unfold pendq in *.
    constructor; unfold pendq, inv_owner; cbn; rewrite ?Eo, ?app_assoc.
    + intros b. destruct (Nat.eq_dec b a) as [->|Nb].
      * rewrite upd_same, in_app_iff; cbn. tauto.
      * rewrite upd_other by auto. rewrite A, !in_app_iff. cbn. intuition congruence.
    + apply NoDup_snoc; auto.
    + destruct C as [C1 C2]. split.
      * intros b n. destruct (Nat.eq_dec b a) as [->|Nb]; [rewrite upd_same; discriminate|].
        rewrite upd_other by auto. apply C1.
      * rewrite !upd_other by auto. exact C2.
    + exact D1.
    + intros g b Hg Hb. apply in_app_or in Hb as [Hb|[<-|[]]].
      * rewrite upd_other by (intros ->; auto). auto.
      * rewrite upd_same. auto.
    + rewrite map_app, map_upd_notin by auto. cbn. rewrite upd_same. apply SS_app. repeat split; auto.
      * repeat constructor.
      * intros x y Hx [<-|[]]. apply in_map_iff in Hx as (b & <- & Hb). auto.
    + intros g Hg. apply D4 in Hg. lia.
    + intros b Hb. apply in_app_or in Hb as [Hb|[<-|[]]].
      * rewrite upd_other by (intros ->; auto). apply D5 in Hb. lia.
      * rewrite upd_same. lia.
  - (* Idle, free: immediate grant *)
    injection H as <-. destruct C as (C1 & C2 & C3 & C4).
    unfold pendq in *. rewrite C2, C3 in *.
    constructor; unfold pendq, inv_owner; cbn; rewrite ?C2, ?C3; cbn.
    + intros b. destruct (Nat.eq_dec b a) as [->|Nb].
      * rewrite upd_same. split; [discriminate|tauto].
      * rewrite upd_other by auto. apply A.
    + constructor.
    + split.
      * intros b n. destruct (Nat.eq_dec b a) as [->|Nb]; auto.
        rewrite upd_other by auto. intros Hb. exfalso. eapply C4; eauto.
      * rewrite !upd_same. repeat split; auto; try lia. eauto.
    + apply SS_app. repeat split; auto. repeat constructor. intros x y Hx [<-|[]]. auto.
    + intros g b _ [].
    + constructor.
    + intros g Hg. apply in_app_or in Hg as [Hg|[<-|[]]]; [apply D4 in Hg|]; lia.
    + intros b [].
  - (* Inside n, owner: re-entry *)
    destruct (Nat.eqb_spec o a) as [->|N]; [|discriminate]. injection H as <-.
    destruct C as [C1 C2]. rewrite Pa in C2. destruct C2 as (-> & C3 & C4 & C5).
    unfold pendq in *.
    constructor; unfold pendq, inv_owner; cbn; rewrite ?Eo; auto.
    + intros b. destruct (Nat.eq_dec b a) as [->|Nb].
      * rewrite upd_same. split; [discriminate|]. intros Hb. apply A in Hb. congruence.
      * rewrite upd_other by auto. apply A.
    + split.
      * intros b n. destruct (Nat.eq_dec b a) as [->|Nb]; auto.
        rewrite upd_other by auto. apply C1.
      * rewrite upd_same. repeat split; auto; try lia.
Qed.

Lemma woken_shape s : inv s -> forall a, In a (woken s) ->
  owner s = Some a /\ ph s a = Waiting /\ woken s = [a] /\ depth s = 0.
Proof.
  intros I a Ha. pose proof (iC _ I) as C. unfold inv_owner in C.
  destruct (owner s) as [o|].
  - destruct C as [_ C]. destruct (ph s o) eqn:Po; [contradiction| |].
    + destruct C as [W Z]. rewrite W in Ha. destruct Ha as [<-|[]]. auto.
    + destruct C as (_ & _ & W & _). rewrite W in Ha. destruct Ha.
  - destruct C as (_ & _ & W & _). rewrite W in Ha. destruct Ha.
Qed.

Lemma inv_wake s a s' : inv s -> step s (DeliverWake a) = Some s' -> inv s'.
Proof.
  intros I H. cbn in H. destruct (ph s a) eqn:Pa; try discriminate.
  destruct (mem a (woken s)) eqn:M; try discriminate. pose proof M as M'. apply mem_In in M'.
  destruct (woken_shape _ I _ M') as (Eo & _ & W & Dz).
  unfold unsubscribe in H. rewrite M in H. cbn in H. rewrite W in H. cbn in H.
  rewrite Nat.eqb_refl in H. injection H as <-.
  destruct I as [A B C D1 D2 D3 D4 D5]. unfold pendq, inv_owner in *. rewrite W, ?Eo in *. cbn in *.
  apply NoDup_cons_iff in B as [B1 B2]. apply StronglySorted_inv in D3 as [D3 D3'].
  rewrite Forall_forall in D3'.
  constructor; unfold pendq, inv_owner; cbn; rewrite ?Eo; auto.
  - intros b. destruct (Nat.eq_dec b a) as [->|Nb].
    + rewrite upd_same. split; [discriminate|tauto].
    + rewrite upd_other by auto. rewrite A. intuition congruence.
  - destruct C as [C1 C2]. split.
    + intros b n. destruct (Nat.eq_dec b a) as [->|Nb]; auto. rewrite upd_other by auto. apply C1.
    + rewrite upd_same. repeat split; auto; try lia. eauto.
  - apply SS_app. repeat split; auto. repeat constructor. intros x y Hx [<-|[]]. auto.
  - intros g b Hg Hb. apply in_app_or in Hg as [Hg|[<-|[]]]; auto.
    apply D3'. apply in_map; auto.
  - intros g Hg. apply in_app_or in Hg as [Hg|[<-|[]]]; auto.
Qed.

(* a state in which the previous owner has just left and `__release__` is about to run *)
Record pre_release (s : st) : Prop := {
  pA : forall a, ph s a = Waiting <-> In a (waiting s);
  pB : NoDup (waiting s);
  pW : woken s = [];
  pZ : depth s = 0;
  pI : forall a n, ph s a <> Inside n;
  pD1 : StronglySorted lt (grants s);
  pD2 : forall g b, In g (grants s) -> In b (waiting s) -> g < tick s b;
  pD3 : StronglySorted lt (map (tick s) (waiting s));
  pD4 : forall g, In g (grants s) -> g < ntick s;
  pD5 : forall b, In b (waiting s) -> tick s b < ntick s
}.

Lemma inv_release s : pre_release s -> inv (release s).
Proof.
  intros [A B W Z I D1 D2 D3 D4 D5]. unfold release.
  destruct (waiting s) as [|b r] eqn:Ew.
  - constructor; unfold pendq, inv_owner; cbn; rewrite ?W; cbn; auto; try constructor;
      try (intros; contradiction).

  - constructor; unfold pendq, inv_owner; cbn; rewrite ?W; cbn; auto.
    split.
    + intros a n Ha. exfalso. eapply I; eauto.
    + rewrite (proj2 (A b)) by (now left). auto.
Qed.

Lemma set_ph_release s a p : set_ph (release s) a p = release (set_ph s a p).
Proof. unfold release, set_ph. cbn. destruct (waiting s); reflexivity. Qed.

Lemma rem1_app_notin a l1 l2 : ~ In a l1 -> rem1 a (l1 ++ l2) = l1 ++ rem1 a l2.
Proof.
  induction l1 as [|c r IH]; cbn; auto. intros H.
  destruct (Nat.eqb_spec c a) as [->|N]; [exfalso; auto|]. f_equal. apply IH. auto.
Qed.

Lemma inv_exit s a s' : inv s -> step s (Exit a) = Some s' -> inv s'.
Proof.
  intros I H. cbn in H. destruct (ph s a) as [| |[|n]] eqn:Pa; try discriminate.
  destruct I as [A B C D1 D2 D3 D4 D5]. unfold inv_owner in C.
  destruct (owner s) as [o|] eqn:Eo.
  2:{ destruct C as (_ & _ & _ & C). exfalso. eapply C; eauto. }
  destruct C as [C1 C2]. assert (o = a) as -> by (symmetry; eapply C1; eauto).
  rewrite Pa in C2. destruct C2 as (Ed & _ & W & G).
  assert (Na : ~ In a (pendq s)) by (rewrite <- A; congruence).
  unfold pendq in *. rewrite W in *. cbn in *. rewrite <- Ed in H. cbn in H.
  destruct n as [|m]; cbn in H; injection H as <-.
  - apply inv_release. constructor; cbn; auto.
    + intros b. destruct (Nat.eq_dec b a) as [->|Nb].
      * rewrite upd_same. split; [discriminate|tauto].
      * rewrite upd_other by auto. apply A.
    + intros b k. destruct (Nat.eq_dec b a) as [->|Nb]; [rewrite upd_same; discriminate|].
      rewrite upd_other by auto. intros Hb. apply Nb. eapply C1; eauto.
  - constructor; unfold pendq, inv_owner; cbn; rewrite ?Eo, ?W; cbn; auto.
    + intros b. destruct (Nat.eq_dec b a) as [->|Nb].
      * rewrite upd_same. split; [discriminate|tauto].
      * rewrite upd_other by auto. apply A.
    + split.
      * intros b k. destruct (Nat.eq_dec b a) as [->|Nb]; auto. rewrite upd_other by auto. apply C1.
      * rewrite upd_same. repeat split; auto; lia.
Qed.

Lemma inv_foreign s a s' : inv s -> step s (DeliverForeign a) = Some s' -> inv s'.
Proof.
  intros I H. cbn in H. destruct (ph s a) eqn:Pa; try discriminate. injection H as <-.
  unfold unsubscribe. destruct (mem a (woken s)) eqn:M.
  - (* the designated owner is hit: revoke its wake-up, pass ownership on *)
    apply mem_In in M. destruct (woken_shape _ I _ M) as (Eo & _ & W & Dz).
    unfold is_owner. cbn. rewrite Eo, Nat.eqb_refl. rewrite set_ph_release.
    destruct I as [A B C D1 D2 D3 D4 D5]. unfold pendq, inv_owner in *. rewrite W in *.
    rewrite Eo in C. cbn in *. rewrite Nat.eqb_refl.
    apply NoDup_cons_iff in B as [B1 B2]. apply StronglySorted_inv in D3 as [D3 D3'].
    destruct C as [C1 _].
    apply inv_release. constructor; cbn; auto.
    + intros b. destruct (Nat.eq_dec b a) as [->|Nb].
      * rewrite upd_same. split; [discriminate|tauto].
      * rewrite upd_other by auto. rewrite A. intuition congruence.
    + intros b k. destruct (Nat.eq_dec b a) as [->|Nb]; [rewrite upd_same; discriminate|].
      rewrite upd_other by auto. intros Hb. apply Nb. eapply C1; eauto.
  - (* an ordinary waiter is hit: it leaves the waiting list *)
    apply mem_false in M.
    destruct I as [A B C D1 D2 D3 D4 D5]. unfold pendq, inv_owner in *.
    assert (Ha : In a (waiting s)).
    { apply A in Pa. apply in_app_or in Pa as [|]; [contradiction|auto]. }
    assert (No : is_owner s a = false).
    { unfold is_owner. destruct (owner s) as [o|]; auto. destruct (Nat.eqb_spec o a) as [->|]; auto.
      destruct C as [_ C]. rewrite Pa in C. destruct C as [W _]. rewrite W in M. cbn in M. tauto. }
    unfold is_owner in *. cbn. rewrite No.
    pose proof (NoDup_rem1 a _ B) as [B1 B2]. rewrite rem1_app_notin in B1, B2 by auto.
    constructor; unfold pendq, inv_owner; cbn; auto.
    + intros b. destruct (Nat.eq_dec b a) as [->|Nb].
      * rewrite upd_same. split; [discriminate|tauto].
      * rewrite upd_other by auto. rewrite A, !in_app_iff.
        split; (intros [|]; [now left|right]); [apply In_rem1_neq | eapply In_rem1]; eauto.
    + destruct (owner s) as [o|] eqn:Eo.
      * destruct C as [C1 C2]. split.
        -- intros b k. destruct (Nat.eq_dec b a) as [->|Nb]; [rewrite upd_same; discriminate|].
           rewrite upd_other by auto. apply C1.
        -- destruct (Nat.eqb_spec o a) as [|N]; [discriminate|]. rewrite upd_other by auto. exact C2.
      * destruct C as (_ & C & _). rewrite C in Ha. destruct Ha.
    + intros g b Hg Hb. apply D2; auto. rewrite in_app_iff in *. destruct Hb; auto.
      right. eapply In_rem1; eauto.
    + rewrite <- rem1_app_notin by auto. apply SS_map_rem1. auto.
    + intros b Hb. apply D5. rewrite in_app_iff in *. destruct Hb; auto. right. eapply In_rem1; eauto.
Qed.

Lemma inv_step s t s' : inv s -> step s t = Some s' -> inv s'.
Proof.
  destruct t; eauto using inv_request, inv_wake, inv_foreign, inv_exit.
Qed.

Theorem reachable_inv s : reachable s -> inv s.
Proof. induction 1; eauto using inv_init, inv_step. Qed.

(* ---------- C09 theorems (all over `reachable`: every interleaving, every fault point) ---------- *)

Definition inside (s : st) (a : aid) : Prop := exists n, ph s a = Inside n.

Lemma inside_owner s : inv s -> forall a n, ph s a = Inside n ->
  owner s = Some a /\ depth s = n /\ 1 <= n /\ woken s = [].
Proof.
  intros I a n Ha. pose proof (iC _ I) as C. unfold inv_owner in C. destruct (owner s) as [o|].
  - destruct C as [C1 C2]. assert (a = o) as <- by (eapply C1; eauto). rewrite Ha in C2.
    destruct C2 as (-> & ? & ? & _). auto.
  - destruct C as (_ & _ & _ & C). exfalso. eapply C; eauto.
Qed.

(* at most one activity is inside the block, and it is the owner *)
Theorem mutex s : reachable s -> forall a b n m,
  ph s a = Inside n -> ph s b = Inside m -> a = b /\ owner s = Some a.
Proof.
  intros R a b n m Ha Hb. apply reachable_inv in R.
  destruct (inside_owner _ R _ _ Ha) as (Oa & _). destruct (inside_owner _ R _ _ Hb) as (Ob & _).
  split; congruence.
Qed.

(* the phase counter of the holder is the lock's depth *)
Theorem reentrant_depth s : reachable s -> forall a n,
  ph s a = Inside n -> owner s = Some a /\ depth s = n /\ 1 <= n.
Proof. intros R a n Ha. apply reachable_inv in R. destruct (inside_owner _ R _ _ Ha); tauto. Qed.

(* the owner may always re-enter, without waiting *)
Theorem reenter_immediate s a n : reachable s -> ph s a = Inside n ->
  exists s', step s (Request a) = Some s' /\ ph s' a = Inside (S n) /\ owner s' = Some a /\
             depth s' = S n /\ waiting s' = waiting s.
Proof.
  intros R Ha. apply reachable_inv in R. destruct (inside_owner _ R _ _ Ha) as (O & D & _).
  cbn. rewrite Ha, O, Nat.eqb_refl. eexists. split; [reflexivity|]. cbn. rewrite upd_same. auto.
Qed.

(* leaving an inner block keeps the lock *)
Theorem exit_inner_keeps s a n s' : reachable s -> ph s a = Inside (S (S n)) ->
  step s (Exit a) = Some s' ->
  owner s' = Some a /\ ph s' a = Inside (S n) /\ depth s' = S n /\ waiting s' = waiting s.
Proof.
  intros R Ha H. apply reachable_inv in R. destruct (inside_owner _ R _ _ Ha) as (O & D & _).
  cbn in H. rewrite Ha in H. cbn in H. rewrite D in H. cbn in H. injection H as <-. cbn.
  rewrite upd_same. auto.
Qed.

(* leaving the outermost block - normally, by exception, cancellation, interruption or close - gives
   the lock to the oldest waiter (whose wake-up is then in flight), or frees it *)
Theorem exit_outermost_hands_off s a s' : reachable s -> ph s a = Inside 1 ->
  step s (Exit a) = Some s' ->
  ph s' a = Idle /\ owner s' = hd_error (waiting s) /\ depth s' = 0 /\
  woken s' = match waiting s with [] => [] | b :: _ => [b] end /\ waiting s' = tl (waiting s).
Proof.
  intros R Ha H. apply reachable_inv in R. destruct (inside_owner _ R _ _ Ha) as (O & D & _ & W).
  cbn in H. rewrite Ha in H. cbn in H. rewrite D in H. cbn in H. injection H as <-.
  unfold release. cbn. rewrite W. destruct (waiting s); cbn; rewrite upd_same; auto.
Qed.

(* a signal that hits the designated owner before it was resumed passes ownership on *)
Theorem foreign_designated_hands_off s a s' : reachable s -> ph s a = Waiting -> owner s = Some a ->
  step s (DeliverForeign a) = Some s' ->
  ph s' a = Idle /\ owner s' = hd_error (waiting s) /\ depth s' = 0 /\
  woken s' = match waiting s with [] => [] | b :: _ => [b] end /\ waiting s' = tl (waiting s).
Proof.
  intros R Ha O H. apply reachable_inv in R. pose proof (iC _ R) as C. unfold inv_owner in C.
  rewrite O, Ha in C. destruct C as (_ & W & Z).
  cbn in H. rewrite Ha in H. injection H as <-. unfold unsubscribe. rewrite W. cbn.
  rewrite Nat.eqb_refl. cbn. unfold is_owner. cbn. rewrite O, Nat.eqb_refl. unfold release. cbn.
  destruct (waiting s); cbn; rewrite upd_same; auto.
Qed.

(* a signal that hits an ordinary waiter only withdraws its request *)
Theorem foreign_waiter_leaves s a s' : reachable s -> ph s a = Waiting -> owner s <> Some a ->
  step s (DeliverForeign a) = Some s' ->
  ph s' a = Idle /\ owner s' = owner s /\ depth s' = depth s /\ woken s' = woken s /\
  waiting s' = rem1 a (waiting s) /\ ~ In a (waiting s').
Proof.
  intros R Ha O H. apply reachable_inv in R.
  assert (M : mem a (woken s) = false).
  { apply mem_false. intros M. apply (woken_shape _ R) in M. tauto. }
  assert (No : is_owner s a = false).
  { unfold is_owner. destruct (owner s) as [o|]; auto. destruct (Nat.eqb_spec o a); congruence. }
  cbn in H. rewrite Ha in H. injection H as <-. unfold unsubscribe. rewrite M.
  unfold is_owner in *. cbn. rewrite No. cbn. rewrite upd_same. repeat split; auto.
  pose proof (iB _ R) as B. unfold pendq in B. apply NoDup_rem1 with (a := a) in B as [_ B].
  rewrite rem1_app_notin in B by (now apply mem_false). rewrite in_app_iff in B. tauto.
Qed.

(* the lock is free exactly when nobody holds it, is designated for it, or waits for it *)
Theorem free_iff_idle s : reachable s -> (owner s = None <-> forall a, ph s a = Idle).
Proof.
  intros R. apply reachable_inv in R. pose proof (iC _ R) as C. unfold inv_owner in C. split.
  - intros O a. rewrite O in C. destruct C as (_ & W1 & W2 & C). destruct (ph s a) eqn:Pa; auto.
    + apply (iA _ R) in Pa. unfold pendq in Pa. rewrite W1, W2 in Pa. destruct Pa.
    + exfalso. eapply C; eauto.
  - intros Hi. destruct (owner s) as [o|]; auto. destruct C as [_ C]. rewrite Hi in C. destruct C.
Qed.

(* ... and whenever it is not free, its owner can move: it is inside (and can leave) or its wake-up is
   in flight (and can be delivered) - ownership is never parked on an activity that will not run *)
Theorem owner_can_move s o : reachable s -> owner s = Some o ->
  (exists n, ph s o = Inside (S n) /\ step s (Exit o) <> None) \/
  (ph s o = Waiting /\ In o (woken s) /\ step s (DeliverWake o) <> None).
Proof.
  intros R O. apply reachable_inv in R. pose proof (iC _ R) as C. unfold inv_owner in C.
  rewrite O in C. destruct C as [_ C]. destruct (ph s o) as [| |n] eqn:Po; [contradiction| |].
  - right. destruct C as [W _]. repeat split; auto.
    + rewrite W. now left.
    + cbn. rewrite Po, W. cbn. rewrite Nat.eqb_refl. discriminate.
  - left. destruct n as [|n]; [lia|]. exists n. split; auto. cbn. rewrite Po. discriminate.
Qed.

(* every waiter is either queued or has its wake-up in flight, never both: `__unsubscribe__`
   (revoke if scheduled, else list.remove) always finds what it looks for *)
Theorem unsubscribe_safe s a : reachable s -> ph s a = Waiting ->
  (In a (woken s) /\ ~ In a (waiting s)) \/ (In a (waiting s) /\ ~ In a (woken s)).
Proof.
  intros R Ha. apply reachable_inv in R. apply (iA _ R) in Ha. pose proof (iB _ R) as B.
  unfold pendq in *. apply in_app_or in Ha as [Ha|Ha]; [left|right]; split; auto; intros Hb.
  - apply in_split in Ha as (l1 & l2 & E). rewrite E, <- app_assoc in B. cbn in B.
    apply NoDup_remove_2 in B. apply B. rewrite !in_app_iff. auto.
  - apply in_split in Hb as (l1 & l2 & E). rewrite E, <- app_assoc in B. cbn in B.
    apply NoDup_remove_2 in B. apply B. rewrite !in_app_iff. auto.
Qed.

(* `available` asked by a running activity: true exactly when the lock is free or held by it *)
Theorem available_spec s a : reachable s -> ph s a <> Waiting ->
  (available s a = true <-> (forall b, ph s b = Idle) \/ inside s a).
Proof.
  intros R Ha. pose proof (free_iff_idle _ R) as F. apply reachable_inv in R.
  unfold available. destruct (owner s) as [o|] eqn:O.
  - split.
    + intros E. apply Nat.eqb_eq in E. subst o. right. pose proof (iC _ R) as C. unfold inv_owner in C.
      rewrite O in C. destruct C as [_ C]. destruct (ph s a) eqn:Pa; [contradiction|congruence|].
      eexists; eauto.
    + intros [Hi|[n Hn]].
      * apply F in Hi. discriminate.
      * destruct (inside_owner _ R _ _ Hn) as (O' & _). rewrite O in O'. injection O' as ->.
        apply Nat.eqb_refl.
  - split; auto. intros _. left. apply F. auto.
Qed.

(* `available` predicts whether a request would have to wait *)
Theorem available_predicts_request s a s' : reachable s -> step s (Request a) = Some s' ->
  (available s a = true -> inside s' a) /\ (available s a = false -> ph s' a = Waiting).
Proof.
  intros R H. cbn in H. unfold available, inside.
  destruct (ph s a) eqn:Pa; try discriminate; destruct (owner s) as [o|] eqn:O; try discriminate.
  - destruct (Nat.eqb_spec o a); [discriminate|]. injection H as <-. cbn. rewrite upd_same.
    split; [discriminate|auto].
  - injection H as <-. cbn. rewrite upd_same. split; eauto. discriminate.
  - destruct (Nat.eqb_spec o a); [|discriminate]. injection H as <-. cbn. rewrite upd_same.
    split; eauto. discriminate.
Qed.

(* FIFO.  Every outermost request draws the next ticket (ticket_fresh); `grants` logs the tickets in
   the order in which activities got inside (grants_log).  The log is strictly increasing, and every
   request still outstanding (designated owner, then the waiting list in list order) is younger than
   every grant and they are in ticket order among themselves: grants happen in request order among
   the requests that were not withdrawn. *)
Theorem fifo_grant s : reachable s ->
  StronglySorted lt (grants s ++ map (tick s) (pendq s)) /\
  Forall (fun t => t < ntick s) (grants s ++ map (tick s) (pendq s)).
Proof.
  intros R. apply reachable_inv in R. destruct R as [A B C D1 D2 D3 D4 D5]. split.
  - apply SS_app. repeat split; auto. intros x y Hx Hy. apply in_map_iff in Hy as (b & <- & Hb). auto.
  - apply Forall_forall. intros x Hx. apply in_app_or in Hx as [Hx|Hx]; auto.
    apply in_map_iff in Hx as (b & <- & Hb). auto.
Qed.

Theorem ticket_fresh s a s' : step s (Request a) = Some s' -> ph s a = Idle ->
  tick s' a = ntick s /\ ntick s' = S (ntick s) /\ (forall b, b <> a -> tick s' b = tick s b).
Proof.
  intros H Pa. cbn in H. rewrite Pa in H. destruct (owner s) as [o|].
  - destruct (Nat.eqb o a); [discriminate|]. injection H as <-. cbn. rewrite upd_same.
    repeat split; auto. intros. apply upd_other; auto.
  - injection H as <-. cbn. rewrite upd_same. repeat split; auto. intros. apply upd_other; auto.
Qed.

Lemma grants_release s : grants (release s) = grants s.
Proof. unfold release. destruct (waiting s); reflexivity. Qed.

Lemma grants_unsubscribe a s : grants (unsubscribe a s) = grants s.
Proof. unfold unsubscribe. destruct (mem a (woken s)); reflexivity. Qed.

Definition gets_inside (s s' : st) (a : aid) : Prop :=
  (forall n, ph s a <> Inside n) /\ exists n, ph s' a = Inside n.

(* a grant always goes to the OLDEST outstanding request (or to a fresh request on a lock nobody
   waits for), it is logged, and nothing else is ever logged *)
Theorem grant_is_oldest s t s' : reachable s -> step s t = Some s' ->
  (gets_inside s s' (actor t) ->
     grants s' = grants s ++ [tick s' (actor t)] /\
     ((pendq s = actor t :: pendq s') \/ (pendq s = [] /\ pendq s' = [] /\ t = Request (actor t)))) /\
  (~ gets_inside s s' (actor t) -> grants s' = grants s).
Proof.
  intros R H. apply reachable_inv in R. unfold gets_inside. destruct t as [a|a|a|a]; cbn [actor].
  - cbn in H. destruct (ph s a) eqn:Pa; try discriminate; destruct (owner s) as [o|] eqn:O;
      try discriminate.
    + destruct (Nat.eqb_spec o a); [discriminate|]. injection H as <-. cbn. rewrite upd_same. split; auto.
      intros [_ [k Hk]]. discriminate.
    + injection H as <-. cbn. rewrite !upd_same. pose proof (iC _ R) as C. unfold inv_owner in C.
      rewrite O in C. destruct C as (_ & W1 & W2 & _). unfold pendq. cbn. rewrite W1, W2. split; auto.
      intros N. exfalso. apply N. split; [intros; discriminate | eauto].
    + destruct (Nat.eqb_spec o a); [|discriminate]. injection H as <-. cbn. split; auto.
      intros [N _]. exfalso. eapply N; eauto.
  - cbn in H. destruct (ph s a) eqn:Pa; try discriminate.
    destruct (mem a (woken s)) eqn:M; try discriminate. pose proof M as M'. apply mem_In in M'.
    destruct (woken_shape _ R _ M') as (_ & _ & W & _). unfold unsubscribe in H. rewrite M in H.
    cbn in H. injection H as <-. unfold pendq. cbn. rewrite W. cbn. rewrite Nat.eqb_refl, upd_same.
    split; auto. intros N. exfalso. apply N. split; [intros; discriminate | eauto].
  - assert (ph s' a = Idle).
    { cbn in H. destruct (ph s a); try discriminate. injection H as <-. cbn. apply upd_same. }
    assert (grants s' = grants s).
    { cbn in H. destruct (ph s a); try discriminate. injection H as <-. cbn.
      destruct (is_owner _ a); rewrite ?grants_release; apply grants_unsubscribe. }
    split; auto. intros [_ [k Hk]]. congruence.
  - cbn in H. destruct (ph s a) as [| |[|n]] eqn:Pa; try discriminate.
    assert (grants s' = grants s).
    { injection H as <-. destruct (Nat.eqb _ 0); rewrite ?grants_release; auto. }
    split; auto. intros [N _]. exfalso. eapply N; eauto.
Qed.

(* the environment discipline is the only thing that disables a transition: whatever the code could
   do next at the activity's suspension point is enabled in every reachable state *)
Theorem enabled_by_phase s a : reachable s ->
  match ph s a with
  | Idle => step s (Request a) <> None
  | Waiting => step s (DeliverForeign a) <> None
  | Inside n => step s (Request a) <> None /\ step s (Exit a) <> None
  end.
Proof.
  intros R. apply reachable_inv in R. destruct (ph s a) as [| |n] eqn:Pa.
  - cbn. rewrite Pa. destruct (owner s) as [o|] eqn:O; [|discriminate].
    destruct (Nat.eqb_spec o a) as [->|]; [|discriminate]. exfalso.
    pose proof (iC _ R) as C. unfold inv_owner in C. rewrite O, Pa in C. tauto.
  - cbn. rewrite Pa. discriminate.
  - destruct (inside_owner _ R _ _ Pa) as (O & _ & L & _). cbn. rewrite Pa, O, Nat.eqb_refl.
    destruct n; [lia|]. split; discriminate.
Qed.

(* replay = run: a log accepted by `replay` is an execution of the protocol from `init`, hence every
   state it passes through is reachable and all theorems above apply to it *)
Lemma run_reachable l : forall s s', reachable s -> run s l = Some s' -> reachable s'.
Proof.
  induction l as [|t r IH]; cbn; intros s s' R H.
  - injection H as <-. auto.
  - destruct (step s t) eqn:E; [|discriminate]. eapply IH; [|eauto]. econstructor; eauto.
Qed.

Example ex_handoff :
  option_map project
    (run init [Request 0; Request 1; Request 2; Request 0; DeliverForeign 1; Exit 0; Exit 0])
  = Some (3, 0, [], [2]).
Proof. reflexivity. Qed.
