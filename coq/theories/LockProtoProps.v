(* Invariants of LockProto over ALL reachable states (every interleaving of requests, wake-up
   deliveries, foreign signals at any waiter, exits by any cause) and the C09 theorems. *)
From Coq Require Import List Bool Arith Lia Sorting.Sorted.
From Usim Require Import LockProto.
Import ListNotations.

(* ---------- helpers ---------- *)

Lemma upd_same {A} (f : aid -> A) a v : upd f a v a = v.
Proof. unfold upd. now rewrite Nat.eqb_refl. Qed.

Lemma upd_other {A} (f : aid -> A) a v b : b <> a -> upd f a v b = f b.
Proof. unfold upd. intros H. apply Nat.eqb_neq in H. now rewrite H. Qed.

Lemma mem_In a l : mem a l = true <-> In a l.
Proof.
  unfold mem. rewrite existsb_exists. split.
  - intros (x & Hx & E). apply Nat.eqb_eq in E. now subst.
  - intros H. exists a. split; auto. apply Nat.eqb_refl.
Qed.

Lemma mem_false a l : mem a l = false <-> ~ In a l.
Proof. rewrite <- mem_In. destruct (mem a l); split; congruence. Qed.

Lemma In_rem1 a b l : In b (rem1 a l) -> In b l.
Proof.
  induction l as [|c r IH]; cbn; auto. destruct (Nat.eqb_spec c a); cbn; intuition.
Qed.

Lemma In_rem1_neq a b l : b <> a -> In b l -> In b (rem1 a l).
Proof.
  intros N. induction l as [|c r IH]; cbn; auto. intros [->|H].
  - destruct (Nat.eqb_spec b a); [contradiction | now left].
  - destruct (Nat.eqb_spec c a); auto. right; auto.
Qed.

Lemma NoDup_rem1 a l : NoDup l -> NoDup (rem1 a l) /\ ~ In a (rem1 a l).
Proof.
  induction 1 as [|c r Hc Hr IH]; cbn.
  - split; [constructor | auto].
  - destruct (Nat.eqb_spec c a) as [->|N].
    + split; auto.
    + destruct IH as [I1 I2]. split.
      * constructor; auto. intros H. apply Hc. eapply In_rem1; eauto.
      * intros [E|H]; auto.
Qed.

Lemma rem1_notin a l : ~ In a l -> rem1 a l = l.
Proof.
  induction l as [|c r IH]; cbn; auto. intros H.
  destruct (Nat.eqb_spec c a) as [->|N]; [exfalso; auto|]. f_equal. apply IH. auto.
Qed.

Lemma SS_app {A} (R : A -> A -> Prop) l1 l2 :
  StronglySorted R (l1 ++ l2) <->
  StronglySorted R l1 /\ StronglySorted R l2 /\ (forall x y, In x l1 -> In y l2 -> R x y).
Proof.
  induction l1 as [|a l1 IH]; cbn.
  - split; [intros H; repeat split; auto; try constructor; intros ? ? [] | tauto].
  - split.
    + intros H. apply StronglySorted_inv in H as [H1 H2]. apply IH in H1 as (S1 & S2 & S3).
      rewrite Forall_forall in H2. repeat split; auto.
      * constructor; auto. apply Forall_forall. intros x Hx. apply H2. apply in_or_app; auto.
      * intros x y [<-|Hx] Hy; auto. apply H2. apply in_or_app; auto.
    + intros (S1 & S2 & S3). apply StronglySorted_inv in S1 as [S1 S1'].
      constructor.
      * apply IH. repeat split; auto.
      * rewrite Forall_forall in *. intros x Hx. apply in_app_or in Hx as [Hx|Hx]; auto.
Qed.

Lemma SS_map_rem1 (R : nat -> nat -> Prop) (f : aid -> nat) a l :
  StronglySorted R (map f l) -> StronglySorted R (map f (rem1 a l)).
Proof.
  induction l as [|c r IH]; cbn; auto. intros H. apply StronglySorted_inv in H as [H1 H2].
  destruct (Nat.eqb_spec c a); auto. cbn. constructor; auto.
  rewrite Forall_forall in *. intros x Hx. apply H2. rewrite in_map_iff in *.
  destruct Hx as (y & <- & Hy). exists y. split; auto. eapply In_rem1; eauto.
Qed.

Lemma map_upd_notin (f : aid -> nat) a v l : ~ In a l -> map (upd f a v) l = map f l.
Proof.
  intros H. apply map_ext_in. intros b Hb. apply upd_other. intros ->. auto.
Qed.

(* ---------- the invariant ---------- *)

Definition inv_owner (s : st) : Prop :=
  match owner s with
  | None => depth s = 0 /\ waiting s = [] /\ woken s = [] /\ (forall a n, ph s a <> Inside n)
  | Some o =>
      (forall a n, ph s a = Inside n -> a = o) /\
      match ph s o with
      | Inside n => n = depth s /\ 1 <= n /\ woken s = [] /\ exists g, grants s = g ++ [tick s o]
      | Waiting => woken s = [o] /\ depth s = 0
      | Idle => False
      end
  end.

Record inv (s : st) : Prop := {
  iA : forall a, ph s a = Waiting <-> In a (pendq s);
  iB : NoDup (pendq s);
  iC : inv_owner s;
  iD1 : StronglySorted lt (grants s);
  iD2 : forall g b, In g (grants s) -> In b (pendq s) -> g < tick s b;
  iD3 : StronglySorted lt (map (tick s) (pendq s));
  iD4 : forall g, In g (grants s) -> g < ntick s;
  iD5 : forall b, In b (pendq s) -> tick s b < ntick s
}.

Lemma inv_init : inv init.
Proof.
  constructor; cbn.
  all: try (intros; contradiction); try constructor.
  all: try (intros; contradiction).
  - discriminate.
  - reflexivity.
  - repeat split; intros; discriminate.
Qed.

Lemma NoDup_snoc (a : aid) l : NoDup l -> ~ In a l -> NoDup (l ++ [a]).
Proof.
  induction 1 as [|c r Hc Hr IH]; cbn; intros N.
  - constructor; auto. constructor.
  - constructor.
    + rewrite in_app_iff. cbn. intuition.
    + apply IH. auto.
Qed.

Lemma inv_request s a s' : inv s -> step s (Request a) = Some s' -> inv s'.
Proof.
  intros I H. cbn in H. destruct I as [A B C D1 D2 D3 D4 D5].
  unfold inv_owner in C.
  destruct (ph s a) eqn:Pa; try discriminate; destruct (owner s) as [o|] eqn:Eo; try discriminate.
  - (* Idle, busy: enqueue *)
    destruct (Nat.eqb_spec o a) as [|N]; [discriminate|]. injection H as <-.
    assert (Na : ~ In a (pendq s)) by (rewrite <- A; congruence).
    unfold pendq in *.
    constructor; unfold pendq, inv_owner; cbn; rewrite ?Eo, ?app_assoc.
    + intros b. destruct (Nat.eq_dec b a) as [->|Nb].
      * rewrite upd_same, in_app_iff; cbn. tauto.
      * rewrite upd_other by auto. rewrite A, !in_app_iff. cbn. intuition congruence.
    + apply NoDup_snoc; auto.
    + destruct C as [C1 C2]. split.
      * intros b n. destruct (Nat.eq_dec b a) as [->|Nb]; [rewrite upd_same; discriminate|].
        rewrite upd_other by auto. apply C1.
      * rewrite !upd_other by auto. exact C2.
    + exact D1.
    + intros g b Hg Hb. apply in_app_or in Hb as [Hb|[<-|[]]].
      * rewrite upd_other by (intros ->; auto). auto.
      * rewrite upd_same. auto.
    + rewrite map_app, map_upd_notin by auto. cbn. rewrite upd_same. apply SS_app. repeat split; auto.
      * repeat constructor.
      * intros x y Hx [<-|[]]. apply in_map_iff in Hx as (b & <- & Hb). auto.
    + intros g Hg. apply D4 in Hg. lia.
    + intros b Hb. apply in_app_or in Hb as [Hb|[<-|[]]].
      * rewrite upd_other by (intros ->; auto). apply D5 in Hb. lia.
      * rewrite upd_same. lia.
  - (* Idle, free: immediate grant *)
    injection H as <-. destruct C as (C1 & C2 & C3 & C4).
    unfold pendq in *. rewrite C2, C3 in *.
    constructor; unfold pendq, inv_owner; cbn; rewrite ?C2, ?C3; cbn.
    + intros b. destruct (Nat.eq_dec b a) as [->|Nb].
      * rewrite upd_same. split; [discriminate|tauto].
      * rewrite upd_other by auto. apply A.
    + constructor.
    + split.
      * intros b n. destruct (Nat.eq_dec b a) as [->|Nb]; auto.
        rewrite upd_other by auto. intros Hb. exfalso. eapply C4; eauto.
      * rewrite !upd_same. repeat split; auto; try lia. eauto.
    + apply SS_app. repeat split; auto. repeat constructor. intros x y Hx [<-|[]]. auto.
    + intros g b _ [].
    + constructor.
    + intros g Hg. apply in_app_or in Hg as [Hg|[<-|[]]]; [apply D4 in Hg|]; lia.
    + intros b [].
  - (* Inside n, owner: re-entry *)
    destruct (Nat.eqb_spec o a) as [->|N]; [|discriminate]. injection H as <-.
    destruct C as [C1 C2]. rewrite Pa in C2. destruct C2 as (-> & C3 & C4 & C5).
    unfold pendq in *.
    constructor; unfold pendq, inv_owner; cbn; rewrite ?Eo; auto.
    + intros b. destruct (Nat.eq_dec b a) as [->|Nb].
      * rewrite upd_same. split; [discriminate|]. intros Hb. apply A in Hb. congruence.
      * rewrite upd_other by auto. apply A.
    + split.
      * intros b n. destruct (Nat.eq_dec b a) as [->|Nb]; auto.
        rewrite upd_other by auto. apply C1.
      * rewrite upd_same. repeat split; auto; try lia.
Qed.

Lemma woken_shape s : inv s -> forall a, In a (woken s) ->
  owner s = Some a /\ ph s a = Waiting /\ woken s = [a] /\ depth s = 0.
Proof.
  intros I a Ha. pose proof (iC _ I) as C. unfold inv_owner in C.
  destruct (owner s) as [o|].
  - destruct C as [_ C]. destruct (ph s o) eqn:Po; [contradiction| |].
    + destruct C as [W Z]. rewrite W in Ha. destruct Ha as [<-|[]]. auto.
    + destruct C as (_ & _ & W & _). rewrite W in Ha. destruct Ha.
  - destruct C as (_ & _ & W & _). rewrite W in Ha. destruct Ha.
Qed.

Lemma inv_wake s a s' : inv s -> step s (DeliverWake a) = Some s' -> inv s'.
Proof.
  intros I H. cbn in H. destruct (ph s a) eqn:Pa; try discriminate.
  destruct (mem a (woken s)) eqn:M; try discriminate. pose proof M as M'. apply mem_In in M'.
  destruct (woken_shape _ I _ M') as (Eo & _ & W & Dz).
  unfold unsubscribe in H. rewrite M in H. cbn in H. rewrite W in H. cbn in H.
  rewrite Nat.eqb_refl in H. injection H as <-.
  destruct I as [A B C D1 D2 D3 D4 D5]. unfold pendq, inv_owner in *. rewrite W, ?Eo in *. cbn in *.
  apply NoDup_cons_iff in B as [B1 B2]. apply StronglySorted_inv in D3 as [D3 D3'].
  rewrite Forall_forall in D3'.
  constructor; unfold pendq, inv_owner; cbn; rewrite ?Eo; auto.
  - intros b. destruct (Nat.eq_dec b a) as [->|Nb].
    + rewrite upd_same. split; [discriminate|tauto].
    + rewrite upd_other by auto. rewrite A. intuition congruence.
  - destruct C as [C1 C2]. split.
    + intros b n. destruct (Nat.eq_dec b a) as [->|Nb]; auto. rewrite upd_other by auto. apply C1.
    + rewrite upd_same. repeat split; auto; try lia. eauto.
  - apply SS_app. repeat split; auto. repeat constructor. intros x y Hx [<-|[]]. auto.
  - intros g b Hg Hb. apply in_app_or in Hg as [Hg|[<-|[]]]; auto.
    apply D3'. apply in_map; auto.
  - intros g Hg. apply in_app_or in Hg as [Hg|[<-|[]]]; auto.
Qed.
