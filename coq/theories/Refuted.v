(** Witnesses for the known findings: on the faithful model the full-strength statements are FALSE.
    Each scenario is also a directed scenario of the checks (corpus/), where the implementation shows the
    same trace (whole-trace correspondence) and the monitor reports the KNOWN-FINDING. *)
From Coq Require Import ZArith List.
From Usim Require Import XTime Tables Kernel Machine Lib Scenario.
Import ListNotations.


Definition sc_d11 : scenario := {| sc_start := (Fin (0)%Z); sc_till := None; sc_roots := [[(SFirst 501 (Some 2) 0 [(201, [(SAwait (WDelay (Fin (1)%Z)))]); (202, [(SAwait (WDelay (Fin (2)%Z))); (SRaise 0)]); (203, [(SAwait (WDelay (Fin (9)%Z)))])] [(SLog (1)%Z); (SAwait (WDelay (Fin (5)%Z))); (SLog (2)%Z)]); (SLog (3)%Z)]]; sc_nflags := 1; sc_tracked := [(0)%Z]; sc_nlocks := 1; sc_nqueues := 1; sc_nchans := 1; sc_res := [] |}.
Definition trace_d11 : list (list Z) := [[(1)%Z; (8)%Z; (1201)%Z]; [(1)%Z; (1)%Z; (1)%Z]; [(2)%Z; (91)%Z; (21)%Z; (2)%Z]; [(2)%Z; (95)%Z; (0)%Z; (0)%Z; (0)%Z; (0)%Z; (0)%Z; (0)%Z; (0)%Z; (0)%Z; (0)%Z; (0)%Z]].
Lemma run_d11 : run_scenario 6000 200000 sc_d11 = trace_d11.
Proof. vm_compute. reflexivity. Qed.

Definition sc_d14 : scenario := {| sc_start := (Fin (0)%Z); sc_till := None; sc_roots := [[(SScope 9 [(SDo 9 1 StartNow false [(SWithLock 0 [(SUntil 1 WEternity [(SDo 1 2 (StartAfter (Fin (1)%Z)) false [(SRaise 4)]); (SAwait (WDelay (Fin (5)%Z))); (SLog (1)%Z)])]); (SLog (2)%Z)]); (SAwait WInstant); (SAwait WInstant); (SLog (3)%Z); (SAwait (WDelay (Fin (1)%Z))); (SLog (4)%Z); (SRaise 0)]); (SLog (5)%Z)]]; sc_nflags := 1; sc_tracked := [(0)%Z]; sc_nlocks := 1; sc_nqueues := 1; sc_nchans := 1; sc_res := [] |}.
Definition trace_d14 : list (list Z) := [[(0)%Z; (1)%Z; (3)%Z]; [(1)%Z; (1)%Z; (4)%Z]; [(1)%Z; (91)%Z; (20)%Z]; [(1)%Z; (95)%Z; (0)%Z; (0)%Z; (1)%Z; (1)%Z; (0)%Z; (0)%Z; (0)%Z; (0)%Z; (0)%Z; (0)%Z]].
Lemma run_d14 : run_scenario 6000 200000 sc_d14 = trace_d14.
Proof. vm_compute. reflexivity. Qed.

Definition sc_d4b : scenario := {| sc_start := (Fin (0)%Z); sc_till := None; sc_roots := [[(SUntil 1 (WOr (WFlag 0) (WFlag 1)) [(SLog (1)%Z); (SAwait (WDelay (Fin (5)%Z))); (SLog (2)%Z)]); (SLog (3)%Z)]; [(SAwait (WDelay (Fin (1)%Z))); (SSetFlag 0 true); (SLog (4)%Z)]]; sc_nflags := 2; sc_tracked := [(0)%Z]; sc_nlocks := 1; sc_nqueues := 1; sc_nchans := 1; sc_res := [] |}.
Definition trace_d4b : list (list Z) := [[(0)%Z; (1)%Z; (1)%Z]; [(1)%Z; (1)%Z; (4)%Z]; [(5)%Z; (1)%Z; (2)%Z]; [(5)%Z; (1)%Z; (3)%Z]; [(5)%Z; (90)%Z]; [(5)%Z; (95)%Z; (1)%Z; (0)%Z; (0)%Z; (0)%Z; (0)%Z; (0)%Z; (0)%Z; (0)%Z; (0)%Z; (0)%Z; (0)%Z]].
Lemma run_d4b : run_scenario 6000 200000 sc_d4b = trace_d4b.
Proof. vm_compute. reflexivity. Qed.

(** D11 (C03, C16): a contestant of first() fails while the consumer is suspended in its own loop body: the run ends
    with the internal cancel signal of first()'s scope (event [time; 91; 21; 2]) *)
Theorem internal_signal_escapes_refuted :
  exists s, In [2; 91; 21; 2]%Z (run_scenario 6000 200000 s).
Proof. exists sc_d11. rewrite run_d11. unfold trace_d11. cbn. tauto. Qed.

(** D14 (C03): a closed lock holder leaving with a privileged child failure trips the internal assertion of
    Lock.__aexit__ (event [time; 91; 20]) *)
Theorem internal_assertion_escapes_refuted :
  exists s, In [1; 91; 20]%Z (run_scenario 6000 200000 s).
Proof. exists sc_d14. rewrite run_d14. unfold trace_d14. cbn. tauto. Qed.

(** D4b (C07): until(flag0 | flag1), false on entry; flag0 is set at time 1 (log 4 at time 1), but the block is only left
    when its body completes at time 5 (log 2 and log 3 at time 5) *)
Theorem until_connective_never_fires_refuted :
  exists s, In [1; 1; 4]%Z (run_scenario 6000 200000 s) /\ In [5; 1; 2]%Z (run_scenario 6000 200000 s) /\
            In [5; 1; 3]%Z (run_scenario 6000 200000 s).
Proof. exists sc_d4b. rewrite run_d4b. unfold trace_d4b. cbn. tauto. Qed.

(** D26 (C12): a task spawned into an outer scope borrows 2 from a share of 3 and outlives the share's block.  When the
    block is left at time 1 the whole share goes back: the supply reads its full level 4 (event [1; 30; 0; 4]) and a
    claim of all 4 succeeds at time 1 (log 4) although the nested borrower is still inside its block until time 10
    (log 1 at time 10). *)
Definition sc_d26 : scenario := {| sc_start := (Fin (0)%Z); sc_till := None; sc_roots := [[(SScope 1 [(SBorrow 0 (3)%Z false 101 [(SDo 1 1 StartNow false [(SBorrow 101 (2)%Z false 102 [(SAwait (WDelay (Fin (10)%Z))); (SLog (1)%Z)]); (SLog (2)%Z)]); (SAwait (WDelay (Fin (1)%Z))); (SLog (3)%Z)]); (SLevel 0); (SBorrow 0 (4)%Z true 103 [(SLog (4)%Z)]); (SLevel 0); (SAwait (WDelay (Fin (20)%Z))); (SLevel 0)])]]; sc_nflags := 1; sc_tracked := [(0)%Z]; sc_nlocks := 1; sc_nqueues := 1; sc_nchans := 1; sc_res := [(false, (4)%Z)] |}.
Definition trace_d26 : list (list Z) :=
  [[1; 1; 3]; [1; 30; 0; 4]; [1; 1; 4]; [1; 30; 0; 4]; [10; 1; 1]; [10; 1; 2]; [21; 30; 0; 4]; [21; 90];
   [21; 95; 0; 0; 0; 0; 0; 0; 0; 0; 0; 0; 4]]%Z.
Lemma run_d26 : run_scenario 6000 200000 sc_d26 = trace_d26.
Proof. vm_compute. reflexivity. Qed.
Theorem share_outlived_by_nested_borrower_refuted :
  exists s, In [1; 30; 0; 4]%Z (run_scenario 6000 200000 s) /\ In [1; 1; 4]%Z (run_scenario 6000 200000 s) /\
            In [10; 1; 1]%Z (run_scenario 6000 200000 s).
Proof. exists sc_d26. rewrite run_d26. unfold trace_d26. cbn. tauto. Qed.
