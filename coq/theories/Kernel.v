(** The event loop of usim/_core/loop.py as a pure priority queue.

    [loop] is the state of [Loop]: current time, turn counter, the deque of the current time step
    ([_pending]) and the time keyed wait queue ([_activations], here its abstract specification: a list
    of buckets sorted by strictly increasing key; WaitQ.v shows that both back ends refine it).
    [kop] are the requests a running coroutine can make: [Loop.schedule] in its three forms and
    [Interrupt.revoke].  [next] is the double loop of [Loop._run_events]: it yields the next
    activation that is actually executed.

    Activations carry two ghost fields that the implementation does not have: the sequence number
    of the [schedule] call that created them and their due time.  They are only used to state
    theorems. *)
From Coq Require Import ZArith List Bool Lia.
From Usim Require Import XTime.
Import ListNotations.

Definition aid := nat.   (* activity (top level coroutine) *)
Definition sid := nat.   (* Interrupt instance *)

Record activation := { a_tgt : aid; a_sig : option sid; a_seq : nat; a_due : xtime }.

Record loop := {
  now : xtime;
  turn : nat;
  pending : list activation;
  future : list (xtime * list activation);
  revoked : list sid;      (* Interrupt._revoked *)
  scheduled : list sid;    (* Interrupt.scheduled *)
  nseq : nat;              (* ghost: number of schedule calls so far *)
  kerr : bool              (* a usage assertion of Loop.schedule was violated *)
}.

Definition mem_sid (s : sid) (l : list sid) : bool := existsb (Nat.eqb s) l.

Definition is_revoked (rv : list sid) (a : activation) : bool :=
  match a_sig a with None => false | Some s => mem_sid s rv end.

Inductive kop :=
| KNow (a : aid) (s : option sid)
| KAfter (d : xtime) (a : aid) (s : option sid)
| KAt (t : xtime) (a : aid) (s : option sid)
| KRevoke (s : sid)
| KMark (s : sid).   (* `interrupt.scheduled = True` written by Condition/Delay.__subscribe__ and Task.cancel *)

(** WaitQueue.push on the abstract queue: append to the bucket of [k], creating it in key order *)
Fixpoint wq_push (k : xtime) (v : activation) (f : list (xtime * list activation)) :=
  match f with
  | [] => [(k, [v])]
  | (k', vs) :: r =>
      if xltb k k' then (k, [v]) :: f
      else if xeqb k k' then (k', vs ++ [v]) :: r
      else (k', vs) :: wq_push k v r
  end.

Definition mark (s : option sid) (l : list sid) : list sid :=
  match s with Some x => x :: l | None => l end.

Definition set_kerr (l : loop) : loop :=
  {| now := now l; turn := turn l; pending := pending l; future := future l; revoked := revoked l;
     scheduled := scheduled l; nseq := nseq l; kerr := true |}.

Definition kapply (l : loop) (o : kop) : loop :=
  match o with
  | KNow a s =>
      {| now := now l; turn := turn l;
         pending := pending l ++ [{| a_tgt := a; a_sig := s; a_seq := nseq l; a_due := now l |}];
         future := future l; revoked := revoked l; scheduled := mark s (scheduled l);
         nseq := S (nseq l); kerr := kerr l |}
  | KAfter d a s =>
      if xpos d && xltb (now l) (xadd (now l) d) then
        {| now := now l; turn := turn l; pending := pending l;
           future := wq_push (xadd (now l) d)
                       {| a_tgt := a; a_sig := s; a_seq := nseq l; a_due := xadd (now l) d |} (future l);
           revoked := revoked l; scheduled := mark s (scheduled l);
           nseq := S (nseq l); kerr := kerr l |}
      else set_kerr l
  | KAt t a s =>
      if xltb (now l) t then
        {| now := now l; turn := turn l; pending := pending l;
           future := wq_push t {| a_tgt := a; a_sig := s; a_seq := nseq l; a_due := t |} (future l);
           revoked := revoked l; scheduled := mark s (scheduled l);
           nseq := S (nseq l); kerr := kerr l |}
      else set_kerr l
  | KRevoke s =>
      {| now := now l; turn := turn l; pending := pending l; future := future l;
         revoked := s :: revoked l; scheduled := scheduled l; nseq := nseq l; kerr := kerr l |}
  | KMark s =>
      {| now := now l; turn := turn l; pending := pending l; future := future l;
         revoked := revoked l; scheduled := s :: scheduled l; nseq := nseq l; kerr := kerr l |}
  end.

Definition kapply_all (l : loop) (ops : list kop) : loop := fold_left kapply ops l.

(** [while pending: activation = pending.popleft(); if activation: ...] *)
Fixpoint skip_revoked (rv : list sid) (p : list activation) : option (activation * list activation) :=
  match p with
  | [] => None
  | a :: r => if is_revoked rv a then skip_revoked rv r else Some (a, r)
  end.

(** [while activations: now, pending = activations.pop(); ...] until an activation executes *)
Fixpoint pop_future (rv : list sid) (f : list (xtime * list activation))
  : option (xtime * activation * list activation * list (xtime * list activation)) :=
  match f with
  | [] => None
  | (k, b) :: f' =>
      match skip_revoked rv b with
      | Some (a, rest) => Some (k, a, rest, f')
      | None => pop_future rv f'
      end
  end.

(** the next activation that is executed, and the loop state in which it executes *)
Definition next (l : loop) : option (activation * loop) :=
  match skip_revoked (revoked l) (pending l) with
  | Some (a, rest) =>
      Some (a, {| now := now l; turn := S (turn l); pending := rest; future := future l;
                  revoked := revoked l; scheduled := scheduled l; nseq := nseq l; kerr := kerr l |})
  | None =>
      match pop_future (revoked l) (future l) with
      | Some (k, a, rest, f') =>
          Some (a, {| now := k; turn := 1; pending := rest; future := f';
                      revoked := revoked l; scheduled := scheduled l; nseq := nseq l; kerr := kerr l |})
      | None => None
      end
  end.

(** Loop(coroutines..., start): all roots are pushed for the start time, in argument order *)
Fixpoint root_activations (n : nat) (i : nat) (start : xtime) : list activation :=
  match n with
  | O => []
  | S n' => {| a_tgt := i; a_sig := None; a_seq := i; a_due := start |} :: root_activations n' (S i) start
  end.

Definition loop_init (nroots : nat) (start : xtime) : loop :=
  {| now := start; turn := 0; pending := root_activations nroots 0 start; future := [];
     revoked := []; scheduled := []; nseq := nroots; kerr := false |}.

(** * Arbitrary clients

    A client is any program driving the kernel: it has a state of its own, and when one of its
    activities is executed it answers with the kernel requests that activity makes before it
    hibernates.  Nothing else is assumed about it. *)
Section Client.
  Variable S : Type.
  Variable client : S -> loop -> activation -> S * list kop.

  Record exec_event := { e_time : xtime; e_act : activation }.

  Fixpoint kexec (n : nat) (st : S) (l : loop) : list exec_event :=
    match n with
    | O => []
    | Datatypes.S n' =>
        match next l with
        | None => []
        | Some (a, l') =>
            let '(st', ops) := client st l' a in
            {| e_time := now l'; e_act := a |} :: kexec n' st' (kapply_all l' ops)
        end
    end.
End Client.
