(** C02: the two back ends of usim/_core/waitq.py (selected by USIM_WAITQUEUE) refine the abstract
    wait queue of Kernel.v ([list (xtime * list activation)], keys strictly increasing, [wq_push],
    pop = head bucket), hence produce the same results for every sequence of operations.

    Trusted contracts (not proved, they are about CPython / sortedcontainers):
    - dict: lookup/insert/pop by key equality ([==] on floats is [xeqb]), keys unique;
    - heapq: [heappush] adds one occurrence of the key to the bag, [heappop] returns a minimum
      element of the bag and removes one occurrence of it;
    - SortedDict: iteration order is key order, [popitem(0)] removes the item with the smallest key.
    Popping an empty queue raises in both back ends (IndexError resp. KeyError; the event loop
    guards every pop with [while self._activations]); it is modelled by the result [None]. *)
From Coq Require Import ZArith List Bool Lia Permutation.
From Usim Require Import XTime Kernel.
Import ListNotations.

Definition bucket := list activation.
Definition wq := list (xtime * bucket).

(** * Specification side *)
Definition wq_pop (f : wq) : option (xtime * bucket * wq) :=
  match f with [] => None | (k, b) :: r => Some (k, b, r) end.
Definition wq_bool (f : wq) : bool := match f with [] => false | _ => true end.

Fixpoint ksorted (l : list xtime) : Prop :=
  match l with [] => True | k :: r => Forall (xlt k) r /\ ksorted r end.
(** keys strictly increasing *)
Definition wq_ok (f : wq) : Prop := ksorted (map fst f).

(** * dict operations on an association list (used for the dict and for the SortedDict) *)
(** [d[k]] *)
Fixpoint d_find (k : xtime) (d : wq) : option bucket :=
  match d with
  | [] => None
  | (k', vs) :: r => if xeqb k k' then Some vs else d_find k r
  end.
(** [d[k].append(v)] for a present key *)
Fixpoint d_append (k : xtime) (v : activation) (d : wq) : wq :=
  match d with
  | [] => []
  | (k', vs) :: r => if xeqb k k' then (k', vs ++ [v]) :: r else (k', vs) :: d_append k v r
  end.
(** [d.pop(k)] *)
Fixpoint d_remove (k : xtime) (d : wq) : option (bucket * wq) :=
  match d with
  | [] => None
  | (k', vs) :: r =>
      if xeqb k k' then Some (vs, r)
      else match d_remove k r with
           | Some (b, r') => Some (b, (k', vs) :: r')
           | None => None
           end
  end.

(** * HQWaitQueue *)
Record hq := { h_data : wq (* the dict, insertion order *); h_keys : list xtime (* the heap, a bag *) }.
Definition hq_empty : hq := {| h_data := []; h_keys := [] |}.
Definition hq_bool (h : hq) : bool := match h_keys h with [] => false | _ => true end.

Definition heappush (k : xtime) (keys : list xtime) : list xtime := k :: keys.
Fixpoint kmin (m : xtime) (l : list xtime) : xtime :=
  match l with [] => m | a :: r => kmin (if xltb a m then a else m) r end.
Fixpoint remove1 (m : xtime) (l : list xtime) : list xtime :=
  match l with [] => [] | a :: r => if xeqb m a then r else a :: remove1 m r end.
Definition heappop (keys : list xtime) : option (xtime * list xtime) :=
  match keys with
  | [] => None
  | k0 :: ks => Some (kmin k0 ks, remove1 (kmin k0 ks) keys)
  end.

Definition hq_push (k : xtime) (v : activation) (h : hq) : hq :=
  match d_find k (h_data h) with
  | Some _ => {| h_data := d_append k v (h_data h); h_keys := h_keys h |}
  | None => {| h_data := h_data h ++ [(k, [v])]; h_keys := heappush k (h_keys h) |}
  end.
Definition hq_pop (h : hq) : option (xtime * bucket * hq) :=
  match heappop (h_keys h) with
  | None => None
  | Some (m, ks') =>
      match d_remove m (h_data h) with
      | None => None
      | Some (b, d') => Some (m, b, {| h_data := d'; h_keys := ks' |})
      end
  end.

(** * SDWaitQueue *)
Definition sd := wq.
Definition sd_empty : sd := [].
Definition sd_bool (s : sd) : bool := match s with [] => false | _ => true end.
(** [sorted_dict[k] = b] for an absent key *)
Fixpoint sd_insert (k : xtime) (b : bucket) (s : sd) : sd :=
  match s with
  | [] => [(k, b)]
  | (k', vs) :: r => if xltb k k' then (k, b) :: s else (k', vs) :: sd_insert k b r
  end.
Definition sd_push (k : xtime) (v : activation) (s : sd) : sd :=
  match d_find k s with
  | Some _ => d_append k v s
  | None => sd_insert k [v] s
  end.
Definition sd_pop (s : sd) : option (xtime * bucket * sd) :=
  match s with [] => None | (k, b) :: r => Some (k, b, r) end.

(** * Abstraction relations *)
Definition R (h : hq) (f : wq) : Prop :=
  wq_ok f /\ Permutation (h_data h) f /\ Permutation (h_keys h) (map fst f).
Definition RS (s : sd) (f : wq) : Prop := wq_ok f /\ s = f.

(** * Auxiliary lemmas *)
Lemma xeqb_false a b : xeqb a b = false -> a <> b.
Proof. intros H E. apply xeqb_eq in E. congruence. Qed.
Lemma xle_neq_lt a b : xle a b -> a <> b -> xlt a b.
Proof.
  unfold xle, xlt. destruct a, b; cbn; auto; try congruence.
  rewrite Z.leb_le, Z.ltb_lt. intros H N. assert (z <> z0) by congruence. lia.
Qed.

Lemma ksorted_NoDup l : ksorted l -> NoDup l.
Proof.
  induction l as [|a r IH]; simpl; [constructor|]. intros [HF HS]. constructor; auto.
  intro HI. rewrite Forall_forall in HF. exact (xlt_irrefl _ (HF _ HI)).
Qed.

Lemma d_find_none k d : d_find k d = None -> ~ In k (map fst d).
Proof.
  induction d as [|[k' vs] r IH]; simpl; intros H; [tauto|].
  destruct (xeqb k k') eqn:E; [discriminate|].
  intros [A|A]; [apply (xeqb_false _ _ E); congruence | exact (IH H A)].
Qed.
Lemma d_find_some k d b : d_find k d = Some b -> In k (map fst d).
Proof.
  induction d as [|[k' vs] r IH]; simpl; intros H; [discriminate|].
  destruct (xeqb k k') eqn:E.
  - left. apply xeqb_eq in E. congruence.
  - right. auto.
Qed.
Lemma map_fst_d_append k v d : map fst (d_append k v d) = map fst d.
Proof.
  induction d as [|[k' vs] r IH]; simpl; [reflexivity|].
  destruct (xeqb k k'); simpl; congruence.
Qed.

Lemma d_append_perm k v d f :
  Permutation d f -> NoDup (map fst d) -> Permutation (d_append k v d) (d_append k v f).
Proof.
  induction 1 as [|[k' vs] l l' HP IH|[k1 v1] [k2 v2] l|l l' l'' HP1 IH1 HP2 IH2]; intros ND.
  - constructor.
  - simpl. destruct (xeqb k k'); apply perm_skip; auto.
    apply IH. simpl in ND. inversion ND; auto.
  - simpl. destruct (xeqb k k1) eqn:E1; destruct (xeqb k k2) eqn:E2; try apply perm_swap.
    exfalso. apply xeqb_eq in E1, E2. subst. simpl in ND. inversion ND as [|? ? HN _]. apply HN. left; reflexivity.
  - eapply perm_trans; [apply IH1; exact ND|]. apply IH2.
    eapply Permutation_NoDup; [exact (Permutation_map fst HP1) | exact ND].
Qed.

Lemma d_remove_perm k b d :
  NoDup (map fst d) -> In (k, b) d ->
  exists d', d_remove k d = Some (b, d') /\ Permutation d ((k, b) :: d').
Proof.
  induction d as [|[k' vs] r IH]; simpl; intros ND HI; [tauto|].
  inversion ND as [|? ? HN ND']; subst.
  destruct (xeqb k k') eqn:E.
  - apply xeqb_eq in E. subst k'. destruct HI as [A|A].
    + inversion A; subst. exists r. split; [reflexivity | apply Permutation_refl].
    + exfalso. apply HN. change k with (fst (k, b)). apply in_map. exact A.
  - destruct HI as [A|A].
    + exfalso. apply (xeqb_false _ _ E). congruence.
    + destruct (IH ND' A) as (d' & Hr & Hp). rewrite Hr. eexists. split; [reflexivity|].
      eapply perm_trans; [apply perm_skip; exact Hp | apply perm_swap].
Qed.

Lemma wq_push_keys_in x k v f : In x (map fst (wq_push k v f)) -> x = k \/ In x (map fst f).
Proof.
  induction f as [|[k' vs] r IH]; simpl.
  - intros [A|[]]; auto.
  - destruct (xltb k k'); [|destruct (xeqb k k')]; simpl; intros H.
    + destruct H as [A|A]; auto.
    + auto.
    + destruct H as [A|A]; auto. apply IH in A. destruct A; auto.
Qed.

Lemma wq_push_ok k v f : wq_ok f -> wq_ok (wq_push k v f).
Proof.
  unfold wq_ok. induction f as [|[k' vs] r IH]; simpl; intros H.
  - split; constructor.
  - destruct H as [HF HS]. destruct (xltb k k') eqn:L; [|destruct (xeqb k k') eqn:E]; simpl.
    + split; [|split; assumption]. constructor; [exact L|].
      eapply Forall_impl; [|exact HF]. intros a Ha. eapply xlt_trans; [exact L | exact Ha].
    + split; assumption.
    + split; [|auto]. apply Forall_forall. intros x Hx. apply wq_push_keys_in in Hx.
      destruct Hx as [->|Hx].
      * apply xle_neq_lt; [apply xltb_false_xleb; exact L|].
        intro X. apply (xeqb_false _ _ E). congruence.
      * rewrite Forall_forall in HF. auto.
Qed.

Lemma wq_push_present k v f : wq_ok f -> In k (map fst f) -> wq_push k v f = d_append k v f.
Proof.
  unfold wq_ok. induction f as [|[k' vs] r IH]; simpl; intros H HI; [tauto|].
  destruct H as [HF HS]. destruct (xltb k k') eqn:L.
  - exfalso. destruct HI as [A|A].
    + subst. exact (xlt_irrefl _ L).
    + rewrite Forall_forall in HF. apply (xlt_irrefl k). eapply xlt_trans; [exact L | auto].
  - destruct (xeqb k k') eqn:E; [reflexivity|]. f_equal. apply IH; auto.
    destruct HI as [A|A]; auto. exfalso. apply (xeqb_false _ _ E). congruence.
Qed.

Lemma wq_push_absent k v f : ~ In k (map fst f) -> Permutation (wq_push k v f) ((k, [v]) :: f).
Proof.
  induction f as [|[k' vs] r IH]; simpl; intros H; [apply Permutation_refl|].
  destruct (xltb k k'); [apply Permutation_refl|].
  destruct (xeqb k k') eqn:E.
  - exfalso. apply H. left. apply xeqb_eq in E. congruence.
  - eapply perm_trans; [apply perm_skip; apply IH; tauto | apply perm_swap].
Qed.

Lemma sd_insert_absent k v f : ~ In k (map fst f) -> sd_insert k [v] f = wq_push k v f.
Proof.
  induction f as [|[k' vs] r IH]; simpl; intros H; [reflexivity|].
  destruct (xltb k k'); [reflexivity|].
  destruct (xeqb k k') eqn:E.
  - exfalso. apply H. left. apply xeqb_eq in E. congruence.
  - f_equal. apply IH. tauto.
Qed.

Lemma kmin_in m l : In (kmin m l) (m :: l).
Proof.
  revert m; induction l as [|a r IH]; intros m; simpl; [auto|].
  specialize (IH (if xltb a m then a else m)).
  destruct (xltb a m); simpl in IH; destruct IH; auto.
Qed.
Lemma kmin_le m l x : In x (m :: l) -> xle (kmin m l) x.
Proof.
  revert m x; induction l as [|a r IH]; intros m x H; simpl.
  - destruct H as [<-|[]]. apply xle_refl.
  - set (m' := if xltb a m then a else m).
    assert (Hm : xle m' m /\ xle m' a).
    { unfold m'. destruct (xltb a m) eqn:E.
      - split; [apply xlt_le; exact E | apply xle_refl].
      - split; [apply xle_refl | apply xltb_false_xleb; exact E]. }
    destruct H as [<-|[<-|H]].
    + eapply xle_trans; [apply IH; left; reflexivity | tauto].
    + eapply xle_trans; [apply IH; left; reflexivity | tauto].
    + apply IH. right. exact H.
Qed.
Lemma remove1_perm m l : In m l -> Permutation l (m :: remove1 m l).
Proof.
  induction l as [|a r IH]; simpl; intros H; [tauto|].
  destruct (xeqb m a) eqn:E.
  - apply xeqb_eq in E. subst. apply Permutation_refl.
  - destruct H as [A|A]; [exfalso; apply (xeqb_false _ _ E); congruence|].
    eapply perm_trans; [apply perm_skip; apply IH; exact A | apply perm_swap].
Qed.

(** * HQWaitQueue refines the specification *)
Lemma R_empty : R hq_empty [].
Proof. split; [exact I|]. split; constructor. Qed.

Theorem hq_push_refines k v h f : R h f -> R (hq_push k v h) (wq_push k v f).
Proof.
  intros (HS & HD & HK). unfold hq_push. destruct (d_find k (h_data h)) eqn:F.
  - apply d_find_some in F.
    assert (H : In k (map fst f)) by (eapply Permutation_in; [exact (Permutation_map fst HD) | exact F]).
    rewrite (wq_push_present _ v _ HS H). split; [|split]; cbn [h_data h_keys].
    + unfold wq_ok. rewrite map_fst_d_append. exact HS.
    + apply d_append_perm; [exact HD|].
      eapply Permutation_NoDup; [apply Permutation_sym; exact (Permutation_map fst HD)|].
      apply ksorted_NoDup. exact HS.
    + rewrite map_fst_d_append. exact HK.
  - apply d_find_none in F.
    assert (H : ~ In k (map fst f)).
    { intro A. apply F. eapply Permutation_in; [apply Permutation_sym; exact (Permutation_map fst HD) | exact A]. }
    split; [|split]; cbn [h_data h_keys].
    + apply wq_push_ok. exact HS.
    + eapply perm_trans; [apply Permutation_sym; apply Permutation_cons_append|].
      eapply perm_trans; [apply perm_skip; exact HD|].
      apply Permutation_sym. apply wq_push_absent. exact H.
    + unfold heappush. eapply perm_trans; [apply perm_skip; exact HK|].
      apply Permutation_sym. change (k :: map fst f) with (map fst ((k, [v]) :: f)).
      apply Permutation_map. apply wq_push_absent. exact H.
Qed.

Theorem hq_pop_refines h f : R h f ->
  match f with
  | [] => hq_pop h = None
  | (k, b) :: f' => exists h', hq_pop h = Some (k, b, h') /\ R h' f'
  end.
Proof.
  destruct h as [data keys]. intros (HS & HD & HK). cbn [h_data h_keys] in *.
  destruct f as [|[k b] f']; unfold hq_pop; cbn [h_data h_keys].
  - simpl in HK. apply Permutation_sym, Permutation_nil in HK. subst. reflexivity.
  - simpl in HK. destruct keys as [|k0 ks]; [exfalso; exact (Permutation_nil_cons HK)|].
    unfold wq_ok in HS. simpl in HS. destruct HS as [HF HS].
    assert (Hk : In k (k0 :: ks)).
    { eapply Permutation_in; [apply Permutation_sym; exact HK | left; reflexivity]. }
    assert (Hm : kmin k0 ks = k).
    { pose proof (kmin_in k0 ks) as Hin. pose proof (kmin_le k0 ks k Hk) as Hle.
      apply (Permutation_in _ HK) in Hin. destruct Hin as [A|A]; [auto|].
      exfalso. rewrite Forall_forall in HF. apply (xlt_irrefl k).
      eapply xlt_le_trans; [apply HF; exact A | exact Hle]. }
    unfold heappop. rewrite Hm.
    assert (ND : NoDup (map fst data)).
    { eapply Permutation_NoDup; [apply Permutation_sym; exact (Permutation_map fst HD)|].
      apply ksorted_NoDup. simpl. split; assumption. }
    assert (HI : In (k, b) data).
    { eapply Permutation_in; [apply Permutation_sym; exact HD | left; reflexivity]. }
    destruct (d_remove_perm k b data ND HI) as (d' & Hr & Hp). rewrite Hr.
    eexists. split; [reflexivity|]. split; [|split]; cbn [h_data h_keys].
    + exact HS.
    + apply Permutation_cons_inv with (a := (k, b)).
      eapply perm_trans; [apply Permutation_sym; exact Hp | exact HD].
    + apply Permutation_cons_inv with (a := k).
      eapply perm_trans; [apply Permutation_sym; apply remove1_perm; exact Hk | exact HK].
Qed.

Theorem hq_bool_refines h f : R h f -> hq_bool h = wq_bool f.
Proof.
  destruct h as [data keys]. intros (HS & HD & HK). unfold hq_bool. cbn [h_data h_keys] in *.
  destruct f as [|p f']; simpl in *.
  - apply Permutation_sym, Permutation_nil in HK. subst. reflexivity.
  - destruct keys; [exfalso; exact (Permutation_nil_cons HK) | reflexivity].
Qed.

(** * SDWaitQueue refines the specification *)
Lemma RS_empty : RS sd_empty [].
Proof. split; [exact I | reflexivity]. Qed.

Theorem sd_push_refines k v s f : RS s f -> RS (sd_push k v s) (wq_push k v f).
Proof.
  intros [HS ->]. split; [apply wq_push_ok; exact HS|].
  unfold sd_push. destruct (d_find k f) eqn:F.
  - symmetry. apply wq_push_present; [exact HS | exact (d_find_some _ _ _ F)].
  - apply sd_insert_absent. exact (d_find_none _ _ F).
Qed.

Theorem sd_pop_refines s f : RS s f ->
  match f with
  | [] => sd_pop s = None
  | (k, b) :: f' => exists s', sd_pop s = Some (k, b, s') /\ RS s' f'
  end.
Proof.
  intros [HS ->]. destruct f as [|[k b] f']; [reflexivity|].
  exists f'. split; [reflexivity|]. split; [|reflexivity].
  unfold wq_ok in *. simpl in HS. tauto.
Qed.

Theorem sd_bool_refines s f : RS s f -> sd_bool s = wq_bool f.
Proof. intros [_ ->]. reflexivity. Qed.

(** * Both back ends are observationally equal *)
Inductive wop := Push (k : xtime) (v : activation) | Pop.
Inductive wres := ResPush | ResPop (r : option (xtime * bucket)).

(** every step records the result of the operation and the truth value of the queue after it *)
Fixpoint wq_run (ops : list wop) (f : wq) : list (wres * bool) :=
  match ops with
  | [] => []
  | Push k v :: r => let f' := wq_push k v f in (ResPush, wq_bool f') :: wq_run r f'
  | Pop :: r =>
      match wq_pop f with
      | None => (ResPop None, wq_bool f) :: wq_run r f
      | Some (k, b, f') => (ResPop (Some (k, b)), wq_bool f') :: wq_run r f'
      end
  end.
Fixpoint hq_run (ops : list wop) (h : hq) : list (wres * bool) :=
  match ops with
  | [] => []
  | Push k v :: r => let h' := hq_push k v h in (ResPush, hq_bool h') :: hq_run r h'
  | Pop :: r =>
      match hq_pop h with
      | None => (ResPop None, hq_bool h) :: hq_run r h
      | Some (k, b, h') => (ResPop (Some (k, b)), hq_bool h') :: hq_run r h'
      end
  end.
Fixpoint sd_run (ops : list wop) (s : sd) : list (wres * bool) :=
  match ops with
  | [] => []
  | Push k v :: r => let s' := sd_push k v s in (ResPush, sd_bool s') :: sd_run r s'
  | Pop :: r =>
      match sd_pop s with
      | None => (ResPop None, sd_bool s) :: sd_run r s
      | Some (k, b, s') => (ResPop (Some (k, b)), sd_bool s') :: sd_run r s'
      end
  end.

Lemma hq_run_spec ops : forall h f, R h f -> hq_run ops h = wq_run ops f.
Proof.
  induction ops as [|[k v|] r IH]; intros h f HR; simpl; [reflexivity| |].
  - pose proof (hq_push_refines k v _ _ HR) as HR'.
    rewrite (hq_bool_refines _ _ HR'). f_equal. apply IH. exact HR'.
  - pose proof (hq_pop_refines _ _ HR) as HP. destruct f as [|[k b] f']; simpl.
    + rewrite HP. rewrite (hq_bool_refines _ _ HR). f_equal. apply IH. exact HR.
    + destruct HP as (h' & E & HR'). rewrite E. rewrite (hq_bool_refines _ _ HR').
      f_equal. apply IH. exact HR'.
Qed.
Lemma sd_run_spec ops : forall s f, RS s f -> sd_run ops s = wq_run ops f.
Proof.
  induction ops as [|[k v|] r IH]; intros s f HR; simpl; [reflexivity| |].
  - pose proof (sd_push_refines k v _ _ HR) as HR'.
    rewrite (sd_bool_refines _ _ HR'). f_equal. apply IH. exact HR'.
  - pose proof (sd_pop_refines _ _ HR) as HP. destruct f as [|[k b] f']; simpl.
    + rewrite HP. rewrite (sd_bool_refines _ _ HR). f_equal. apply IH. exact HR.
    + destruct HP as (s' & E & HR'). rewrite E. rewrite (sd_bool_refines _ _ HR').
      f_equal. apply IH. exact HR'.
Qed.

Theorem hq_sd_equiv ops : hq_run ops hq_empty = sd_run ops sd_empty.
Proof. rewrite (hq_run_spec ops _ _ R_empty), (sd_run_spec ops _ _ RS_empty). reflexivity. Qed.

(** a concrete run on both models *)
Definition act (n : nat) (t : xtime) : activation := {| a_tgt := n; a_sig := None; a_seq := n; a_due := t |}.
Definition ex_ops : list wop :=
  [ Push (Fin 5) (act 0 (Fin 5)); Push (Fin 2) (act 1 (Fin 2)); Push PInf (act 2 PInf);
    Push (Fin 5) (act 3 (Fin 5)); Push (Fin 3) (act 4 (Fin 3)); Pop; Push (Fin 3) (act 5 (Fin 3));
    Pop; Pop; Pop; Pop ].
Definition ex_res : list (wres * bool) :=
  [ (ResPush, true); (ResPush, true); (ResPush, true); (ResPush, true); (ResPush, true);
    (ResPop (Some (Fin 2, [act 1 (Fin 2)])), true); (ResPush, true);
    (ResPop (Some (Fin 3, [act 4 (Fin 3); act 5 (Fin 3)])), true);
    (ResPop (Some (Fin 5, [act 0 (Fin 5); act 3 (Fin 5)])), true);
    (ResPop (Some (PInf, [act 2 PInf])), false);
    (ResPop None, false) ].
Example ex_both : hq_run ex_ops hq_empty = ex_res /\ sd_run ex_ops sd_empty = ex_res.
Proof. split; vm_compute; reflexivity. Qed.

Print Assumptions hq_sd_equiv.
