(** C06 -- proofs about the task life cycle model of TaskProto.v.
    Everything is stated over ALL reachable states / ALL transition sequences: any payload behaviour,
    cancel / close / await by anyone at any point, any number of times. *)
From Coq Require Import List ZArith Bool Lia String.
From Usim Require Import Tables TaskProto.
From UsimGen Require Import Generated GeneratedProps.
Import ListNotations.
Open Scope Z_scope.

(** ---------- the invariant of reachable states ---------- *)

Record Inv (s : state) : Prop := {
  inv_assert : assert_failed s = false;
  inv_done_result : done s = true <-> result s <> None;
  inv_done_sets : done_sets s = if done s then 1%nat else 0%nat;
  inv_phase_result : result s <> None -> phase_of s = Created \/ phase_of s = Finished;
  inv_finished : phase_of s = Finished -> result s <> None;
  inv_pending_result : result s <> None -> pending s = [];
  inv_pending_created : phase_of s = Created -> pending s = [];
  inv_pending_now : Forall (fun p => snd p = now s) (pending s);
  inv_observed : Forall (fun ao => snd ao = result s /\ snd ao <> None) (observed s);
  inv_reports : (reports s = [] /\ phase_of s <> Finished) \/
                (exists b, reports s = [b] /\ phase_of s = Finished);
  inv_reports_true : In true (reports s) -> exists e c, result s = Some (Error (ERaised e c));
  inv_ran : ran s = true -> phase_of s = Suspended \/ phase_of s = Finished
}.

Lemma inv_init : Inv init.
Proof.
  constructor; cbn; auto; try (intros; discriminate); try tauto.
  - split; [discriminate|congruence].
  - left. split; [reflexivity|discriminate].
Qed.

Lemma remove_tok_Forall P t l l' :
  remove_tok t l = Some l' -> Forall P l -> Forall P l'.
Proof.
  revert l'. induction l as [|[t' n] l IH]; intros l' E F; cbn in E; [discriminate|].
  inversion F; subst. destruct (t =? t').
  - inversion E; subst; assumption.
  - destruct (remove_tok t l) as [r|]; [|discriminate]. inversion E; subst.
    constructor; [assumption|]. apply IH; auto.
Qed.

Lemma remove_tok_In t l l' : remove_tok t l = Some l' -> exists n, In (t, n) l.
Proof.
  revert l'. induction l as [|[t' n] l IH]; intros l' E; cbn in E; [discriminate|].
  destruct (Z.eqb_spec t t').
  - subst. exists n. left; reflexivity.
  - destruct (remove_tok t l) as [r|]; [|discriminate].
    destruct (IH r eq_refl) as [m Hm]. exists m. right; exact Hm.
Qed.

Lemma observed_nil s : Inv s -> result s = None -> observed s = [].
Proof.
  intros I E. destruct (observed s) as [|x l] eqn:O; [reflexivity|].
  assert (F := inv_observed s I). rewrite O in F. inversion F as [|? ? [Ha Hb] ?]; subst.
  rewrite E in Ha. contradiction.
Qed.

Ltac inv_fields I :=
  let a := fresh "Ia" in let b := fresh "Idr" in let c := fresh "Ids" in let d := fresh "Ipr" in
  let e := fresh "Ifin" in let f := fresh "Ipe" in let g := fresh "Ipc" in let h := fresh "Ipn" in
  let i := fresh "Iob" in let j := fresh "Irep" in let k := fresh "Irt" in let l := fresh "Iran" in
  destruct I as [a b c d e f g h i j k l].

Ltac fld :=
  cbn; auto;
  try solve [ intros; discriminate | intros; congruence
            | split; [intros _; discriminate | reflexivity]
            | right; eauto
            | left; split; [assumption | discriminate]
            | let H := fresh in intros [H|[]]; discriminate
            | match goal with
              | Irep : (reports _ = [] /\ _) \/ _ |- _ =>
                  destruct Irep as [[? ?]|[? [? ?]]];
                  [left; split; [assumption|discriminate] | congruence]
              end
            | match goal with
              | Irep : (reports _ = [] /\ _) \/ _ |- _ =>
                  destruct Irep as [[? ?]|[? [? ?]]];
                  [congruence | right; eexists; split; [eassumption|reflexivity]]
              end
            | let H := fresh in intros H; exfalso; revert H; cbn; intuition congruence ].

(** the facts needed when a step stores the first result and finishes the runner *)
Lemma inv_finish s r failed :
  Inv s -> result s = None -> phase_of s <> Finished ->
  (failed = true -> exists e c, r = Error (ERaised e c)) ->
  Inv (finish (set_result s r) failed).
Proof.
  intros I E Hph Hf. assert (Ho := observed_nil s I E). inv_fields I.
  assert (Hd : done s = false).
  { destruct (done s) eqn:D; [|reflexivity]. exfalso. apply (proj1 Idr); auto. }
  constructor; cbn; rewrite ?Hd, ?Ho; cbn; auto; try (intros; discriminate).
  - rewrite Ia. reflexivity.
  - split; [discriminate|reflexivity].
  - rewrite Ids, Hd. reflexivity.
  - right. destruct Irep as [[R _]|[b [R P]]]; [|contradiction]. rewrite R. eauto.
  - destruct Irep as [[R _]|[b [R P]]]; [|contradiction]. rewrite R. cbn.
    intros [H|[]]. subst failed. destruct (Hf eq_refl) as [e [c ->]]. eauto.
Qed.

(** the same when the result was overwritten during the step (close: reason, then what the payload
    raised while unwinding) *)
Lemma inv_finish2 s r0 r failed :
  Inv s -> result s = None -> phase_of s <> Finished ->
  (failed = true -> exists e c, r = Error (ERaised e c)) ->
  Inv (finish (set_result (set_result s r0) r) failed).
Proof.
  intros I E Hph Hf.
  replace (finish (set_result (set_result s r0) r) failed) with (finish (set_result s r) failed)
    by reflexivity.
  apply inv_finish; auto.
Qed.

Lemma inv_suspend s : Inv s -> result s = None -> phase_of s <> Finished ->
  Inv (set_phase s Suspended).
Proof.
  intros I E Hph. inv_fields I.
  constructor; cbn; auto; try (intros; discriminate); try (intros; congruence).
  left. destruct Irep as [[R _]|[b [R P]]]; [|contradiction]. split; [assumption|discriminate].
Qed.

Lemma inv_react s : Inv s -> phase_of s <> Finished -> result s = None ->
  forall r tok s', react s r tok = Some s' ->
  Inv s' /\ (phase_of s' = Suspended \/ phase_of s' = Finished).
Proof.
  intros I Hph E r tok s' R.
  destruct r; cbn in R; try discriminate.
  - inversion R; subst. split; [apply inv_suspend; auto|left; reflexivity].
  - inversion R; subst. split; [apply inv_finish; auto; discriminate|right; reflexivity].
  - inversion R; subst. split; [apply inv_finish; auto; eauto|right; reflexivity].
  - destruct tok; [|discriminate]. inversion R; subst.
    split; [apply inv_finish; auto; discriminate|right; reflexivity].
Qed.

Lemma inv_ran_ok s : Inv s -> phase_of s = Suspended \/ phase_of s = Finished -> Inv (set_ran s).
Proof. intros I H. inv_fields I. constructor; cbn; auto. Qed.

Lemma react_set_ran s r tok : react (set_ran s) r tok = option_map set_ran (react s r tok).
Proof. destruct r, tok; reflexivity. Qed.

Lemma inv_set_ran s : Inv s -> phase_of s <> Finished -> result s = None ->
  forall r tok s', react (set_ran s) r tok = Some s' -> Inv s'.
Proof.
  intros I Hph E r tok s' R. rewrite react_set_ran in R.
  destruct (react s r tok) as [s1|] eqn:R1; [|discriminate]. inversion R; subst s'.
  destruct (inv_react s I Hph E r tok s1 R1) as [I1 P1]. apply inv_ran_ok; assumption.
Qed.

Lemma inv_set_pending s p :
  Inv s -> result s = None -> phase_of s <> Created ->
  Forall (fun q => snd q = now s) p -> Inv (set_pending s p).
Proof.
  intros I E Hc F. inv_fields I.
  constructor; cbn; auto; try (intros; congruence).
Qed.

Lemma done_false s : Inv s -> result s = None -> done s = false.
Proof.
  intros I E. destruct (done s) eqn:D; [|reflexivity]. exfalso.
  apply (proj1 (inv_done_result s I)); auto.
Qed.

Lemma result_none_unless s : Inv s -> phase_of s = Delaying \/ phase_of s = Suspended -> result s = None.
Proof.
  intros I H. destruct (result s) eqn:E; [|reflexivity]. exfalso.
  destruct (inv_phase_result s I) as [H'|H']; [congruence| |]; destruct H; congruence.
Qed.

(** cancel()/__close__() of a task whose runner is still CORO_CREATED: result and done at once *)
Lemma inv_mark_created s r :
  Inv s -> result s = None -> phase_of s = Created -> (forall e c, r <> Error (ERaised e c)) ->
  Inv (set_done (set_result s r)).
Proof.
  intros I E Ph Hr. assert (Ho := observed_nil s I E). assert (Hd := done_false s I E). inv_fields I.
  constructor; cbn; rewrite ?Hd, ?Ho; fld.
  - rewrite Ia; reflexivity.
  - rewrite Ids, Hd; reflexivity.
  - rewrite E in Irt. intros H. destruct (Irt H) as [e [c H']]. discriminate.
Qed.

Theorem step_inv : forall s o s', Inv s -> step s o = Some s' -> Inv s'.
Proof.
  intros s o s' I St. destruct o; cbn in St.
  - (* Start *)
    destruct (phase_of s) eqn:Ph; try discriminate.
    destruct (result s) as [r0|] eqn:E.
    + destruct (is_rnone r); [|discriminate]. inversion St; subst s'.
      assert (Ho := I). inv_fields I.
      assert (Hrep : reports s = []).
      { destruct Irep as [[R _]|[b [R P]]]; [assumption|congruence]. }
      constructor; cbn; rewrite ?Hrep; fld.
    + destruct delayed.
      * destruct (is_rnone r); [|discriminate]. inversion St; subst s'. inv_fields I.
        constructor; fld.
      * eapply inv_set_ran; eauto. congruence.
  - (* Resume *)
    destruct (phase_of s) eqn:Ph; try discriminate.
    + eapply inv_set_ran; eauto; [congruence|apply result_none_unless; auto].
    + eapply inv_react; eauto; [congruence|apply result_none_unless; auto].
  - (* Cancel *)
    destruct (result s) as [r0|] eqn:E; [inversion St; subst; assumption|].
    destruct (phase_of s) eqn:Ph.
    + inversion St; subst s'. apply inv_mark_created; auto. discriminate.
    + inversion St; subst s'. apply inv_set_pending; auto; [congruence|].
      apply Forall_app. split; [apply (inv_pending_now s I)|]. constructor; [reflexivity|constructor].
    + inversion St; subst s'. apply inv_set_pending; auto; [congruence|].
      apply Forall_app. split; [apply (inv_pending_now s I)|]. constructor; [reflexivity|constructor].
    + exfalso. apply (inv_finished s I Ph). assumption.
  - (* Deliver *)
    destruct (remove_tok tok (pending s)) as [p'|] eqn:Rm; [|discriminate].
    assert (Hne : pending s <> []).
    { intros H. rewrite H in Rm. discriminate. }
    assert (E : result s = None).
    { destruct (result s) eqn:E; [|reflexivity]. exfalso. apply Hne.
      apply (inv_pending_result s I). congruence. }
    assert (Hc : phase_of s <> Created).
    { intros H. apply Hne. apply (inv_pending_created s I H). }
    assert (Ip' : Inv (set_pending s p')).
    { apply inv_set_pending; auto.
      eapply remove_tok_Forall; eauto; apply (inv_pending_now s I). }
    destruct (phase_of s) eqn:Ph; try discriminate.
    + destruct (is_rnone r); [|discriminate]. inversion St; subst s'.
      apply inv_finish; auto; cbn; [congruence|discriminate].
    + eapply (inv_react (set_pending s p')); eauto. cbn. congruence.
  - (* Close *)
    destruct (result s) as [r0|] eqn:E.
    { destruct (is_cpass c); [|discriminate]. inversion St; subst; assumption. }
    destruct (phase_of s) eqn:Ph.
    + destruct (is_cpass c); [|discriminate]. inversion St; subst s'.
      apply inv_mark_created; auto. discriminate.
    + destruct (is_cpass c); [|discriminate]. inversion St; subst s'.
      apply inv_finish; auto; [congruence|discriminate].
    + destruct c; inversion St; subst s'.
      * apply inv_finish; auto; [congruence|discriminate].
      * apply inv_finish2; auto; [congruence|eauto].
      * apply inv_finish; auto; [congruence|discriminate].
    + exfalso. apply (inv_finished s I Ph). assumption.
  - (* AwaitStart *)
    inversion St; subst s'. inv_fields I. constructor; fld.
  - (* AwaitComplete *)
    destruct (done s) eqn:D; [|discriminate].
    destruct (remove_one a (waiting s)); [|discriminate]. inversion St; subst s'.
    assert (Hr : result s <> None) by (apply (inv_done_result s I); assumption).
    inv_fields I. rewrite D in *. constructor; cbn; fld.
  - (* Tick *)
    destruct (pending s) eqn:P; [|discriminate].
    destruct (phase_of s) eqn:Ph; try discriminate; inversion St; subst s';
      inv_fields I; constructor; cbn; rewrite ?P, ?Ph; fld.
Qed.

Theorem run_inv : forall ops s s', Inv s -> run s ops = Some s' -> Inv s'.
Proof.
  induction ops as [|o ops IH]; intros s s' I R; cbn in R.
  - inversion R; subst; assumption.
  - destruct (step s o) as [s1|] eqn:St; [|discriminate].
    eapply IH; [eapply step_inv; eassumption|exact R].
Qed.

Theorem reachable_inv : forall s, reachable s -> Inv s.
Proof. intros s [ops R]. eapply run_inv; [exact inv_init|exact R]. Qed.

Lemma reachable_step s o s' : reachable s -> step s o = Some s' -> reachable s'.
Proof.
  intros [ops R] St. exists (ops ++ [o])%list.
  revert R. generalize init. induction ops as [|x ops IH]; intros s0 R; cbn in *.
  - inversion R; subst. rewrite St. reflexivity.
  - destruct (step s0 x); [|discriminate]. apply IH. exact R.
Qed.

Lemma reachable_run ops : forall s s', reachable s -> run s ops = Some s' -> reachable s'.
Proof.
  induction ops as [|o ops IH]; intros s s' Rs R; cbn in R.
  - inversion R; subst; assumption.
  - destruct (step s o) as [s1|] eqn:St; [|discriminate].
    eapply IH; [eapply reachable_step; eassumption|exact R].
Qed.

(** ---------- tactics for case analysis of one step ---------- *)

Ltac destr_step St :=
  repeat match type of St with
         | context [match ?x with _ => _ end] => destruct x eqn:?; try discriminate St
         end.

Lemma Some_inj {A} (a b : A) : Some a = Some b -> a = b.
Proof. intros H; inversion H; reflexivity. Qed.

Ltac rew_known :=
  repeat match goal with
         | H : ?a = _ |- context [?a] => rewrite H
         end.

(** a stored result pins the phase to Created or Finished *)
Ltac phase_contra s I :=
  exfalso;
  match goal with
  | H : result s = Some _ |- _ =>
      let X := fresh in
      destruct (inv_phase_result s I) as [X|X]; [rewrite H; discriminate | congruence | congruence]
  end.

Ltac know_result s I :=
  try match goal with
      | H : phase_of s = Delaying |- _ =>
          let E := fresh "Eres" in assert (E := result_none_unless s I (or_introl H))
      | H : phase_of s = Suspended |- _ =>
          let E := fresh "Eres" in assert (E := result_none_unless s I (or_intror H))
      end.

Ltac split_ifs := repeat match goal with |- context [if ?b then _ else _] => destruct b end.

(** ---------- 1. status only moves forward ---------- *)

Theorem status_step : forall s o s', Inv s -> step s o = Some s' ->
  status_of s' = status_of s \/
  (terminal (status_of s) = false /\ (rank (status_of s) < rank (status_of s'))%nat).
Proof.
  intros s o s' I St. unfold status_of.
  destruct o; cbn in St; unfold react in St; destr_step St; apply Some_inj in St; subst s'; know_result s I;
    cbn; rew_known; cbn; split_ifs;
    try (left; reflexivity);
    try (right; split; [reflexivity|cbn; lia]);
    try phase_contra s I.
Qed.

Ltac step_cases s o s' I St :=
  destruct o; cbn in St; unfold react in St; destr_step St; apply Some_inj in St; subst s';
  know_result s I.

Theorem status_forward_only : forall ops s s', Inv s -> run s ops = Some s' ->
  (rank (status_of s) <= rank (status_of s'))%nat /\
  (terminal (status_of s) = true -> status_of s' = status_of s).
Proof.
  induction ops as [|o ops IH]; intros s s' I R; cbn in R.
  - apply Some_inj in R; subst. split; [lia|reflexivity].
  - destruct (step s o) as [s1|] eqn:St; [|discriminate].
    destruct (IH s1 s' (step_inv _ _ _ I St) R) as [Hr Ht].
    destruct (status_step s o s1 I St) as [E|[Hn Hlt]].
    + rewrite E in *. split; assumption.
    + split; [lia|]. intros C. rewrite Hn in C. discriminate.
Qed.

(** the status of a task is a function of its state: at most one of the three final states;
    and a final state is never left *)
Corollary status_final_is_final : forall s ops s', reachable s -> run s ops = Some s' ->
  terminal (status_of s) = true -> status_of s' = status_of s.
Proof.
  intros s ops s' Rs R T. eapply status_forward_only; eauto. apply reachable_inv; assumption.
Qed.

(** ---------- 2. done is set exactly once ---------- *)

Theorem done_once : forall s, reachable s ->
  assert_failed s = false /\ (done_sets s <= 1)%nat /\ (done s = true <-> done_sets s = 1%nat).
Proof.
  intros s Rs. assert (I := reachable_inv s Rs). inv_fields I.
  split; [assumption|]. rewrite Ids. destruct (done s); split; try lia; split; auto; discriminate.
Qed.

(** ---------- 3. the outcome never changes once it is stored / once done ---------- *)

Theorem result_stable_step : forall s o s' r, Inv s -> result s = Some r -> step s o = Some s' ->
  result s' = Some r /\ done s' = true.
Proof.
  intros s o s' r I E St.
  assert (D : done s = true) by (apply (inv_done_result s I); congruence).
  step_cases s o s' I St; cbn; try (split; congruence); try congruence; try phase_contra s I.
Qed.

Theorem result_stable_after_done : forall ops s s', Inv s -> done s = true -> run s ops = Some s' ->
  result s' = result s /\ done s' = true.
Proof.
  induction ops as [|o ops IH]; intros s s' I D R; cbn in R.
  - apply Some_inj in R; subst; auto.
  - destruct (step s o) as [s1|] eqn:St; [|discriminate].
    destruct (result s) as [r|] eqn:E.
    + destruct (result_stable_step s o s1 r I E St) as [E1 D1].
      destruct (IH s1 s' (step_inv _ _ _ I St) D1 R) as [E2 D2]. split; congruence.
    + exfalso. apply (proj1 (inv_done_result s I) D). assumption.
Qed.

(** ---------- 4. every awaiter gets the stored outcome ---------- *)

(** an await completes only on a done task and reads the stored outcome *)
Theorem await_reads_result : forall s a s', step s (AwaitComplete a) = Some s' ->
  done s = true /\ observed s' = (a, result s) :: observed s /\ result s' = result s.
Proof.
  intros s a s' St. cbn in St. destruct (done s); [|discriminate].
  destruct (remove_one a (waiting s)); [|discriminate]. apply Some_inj in St; subst. cbn. auto.
Qed.

Theorem awaiters_agree : forall s, reachable s ->
  forall a o, In (a, o) (observed s) -> o = result s /\ exists r, o = Some r.
Proof.
  intros s Rs a o Hin. assert (F := inv_observed s (reachable_inv s Rs)).
  rewrite Forall_forall in F. destruct (F (a, o) Hin) as [H1 H2]. cbn in *.
  split; [assumption|]. destruct o; [eauto|contradiction].
Qed.

Corollary awaiters_same : forall s, reachable s ->
  forall a1 o1 a2 o2, In (a1, o1) (observed s) -> In (a2, o2) (observed s) -> o1 = o2.
Proof.
  intros s Rs a1 o1 a2 o2 H1 H2.
  destruct (awaiters_agree s Rs a1 o1 H1) as [-> _]. destruct (awaiters_agree s Rs a2 o2 H2) as [-> _].
  reflexivity.
Qed.

Lemma observed_grows_step : forall s o s', step s o = Some s' ->
  forall x, In x (observed s) -> In x (observed s').
Proof.
  intros s o s' St x Hin.
  destruct o; cbn in St; unfold react in St; destr_step St; apply Some_inj in St; subst s'; cbn; auto.
Qed.

(** what an awaiter saw stays the outcome of the task forever *)
Theorem awaiters_agree_forever : forall ops s s' a o, reachable s -> In (a, o) (observed s) ->
  run s ops = Some s' -> In (a, o) (observed s') /\ o = result s'.
Proof.
  intros ops s s' a o Rs Hin R.
  assert (Hin' : In (a, o) (observed s')).
  { clear Rs. revert s R Hin. induction ops as [|x ops IH]; intros s R Hin; cbn in R.
    - apply Some_inj in R; subst; assumption.
    - destruct (step s x) as [s1|] eqn:St; [|discriminate].
      eapply IH; [exact R|]. eapply observed_grows_step; eauto. }
  split; [assumption|]. apply (awaiters_agree s' (reachable_run ops s s' Rs R) a o Hin').
Qed.

(** an awaiter of a done task can always complete (it is never left hanging) *)
Theorem await_completes_when_done : forall s a, done s = true -> In a (waiting s) ->
  exists s', step s (AwaitComplete a) = Some s'.
Proof.
  intros s a D Hin. cbn. rewrite D.
  assert (H : exists w, remove_one a (waiting s) = Some w).
  { induction (waiting s) as [|b l IH]; [contradiction|]. cbn.
    destruct (Z.eqb_spec a b); [eauto|]. destruct Hin as [->|Hin]; [contradiction|].
    destruct (IH Hin) as [w ->]. eauto. }
  destruct H as [w ->]. eauto.
Qed.

(** ---------- 5. cancelled before the first activation: no payload code ever runs ---------- *)

Lemma ran_stays_false : forall s o s', Inv s -> result s <> None -> ran s = false ->
  step s o = Some s' -> ran s' = false.
Proof.
  intros s o s' I E Rn St.
  step_cases s o s' I St; cbn; try assumption; try congruence;
    try (exfalso; destruct (inv_phase_result s I E); congruence).
Qed.

Lemma ran_false_forever : forall ops s s', Inv s -> done s = true -> ran s = false ->
  run s ops = Some s' -> ran s' = false.
Proof.
  induction ops as [|o ops IH]; intros s s' I D Rn R; cbn in R.
  - apply Some_inj in R; subst; assumption.
  - destruct (step s o) as [s1|] eqn:St; [|discriminate].
    assert (E : result s <> None) by (apply (inv_done_result s I); assumption).
    destruct (result s) as [r|] eqn:Er; [|contradiction].
    destruct (result_stable_step s o s1 r I Er St) as [_ D1].
    eapply (IH s1 s'); eauto; [eapply step_inv; eauto|].
    eapply ran_stays_false; eauto. congruence.
Qed.

Theorem cancel_created_runs_nothing : forall s tok, reachable s ->
  phase_of s = Created -> result s = None ->
  exists s1, step s (Cancel tok) = Some s1 /\
    result s1 = Some (Error (ECancelled tok)) /\ done s1 = true /\ status_of s1 = StCancelled /\
    forall ops s2, run s1 ops = Some s2 ->
      ran s2 = false /\ result s2 = Some (Error (ECancelled tok)) /\ ~ In true (reports s2).
Proof.
  intros s tok Rs Ph E. assert (I := reachable_inv s Rs).
  set (s1 := set_done (set_result s (Error (ECancelled tok)))).
  assert (St : step s (Cancel tok) = Some s1) by (cbn; rewrite E, Ph; reflexivity).
  assert (I1 : Inv s1) by (eapply step_inv; eauto).
  exists s1. split; [assumption|]. repeat split; try reflexivity.
  - assert (Hr : ran s1 = false).
    { cbn. destruct (ran s) eqn:Rn; [|reflexivity]. destruct (inv_ran s I Rn); congruence. }
    eapply ran_false_forever; eauto.
  - destruct (result_stable_after_done ops s1 s2 I1 eq_refl H) as [-> _]. reflexivity.
  - intros Ht. assert (R2 : reachable s2).
    { eapply reachable_run; [eapply reachable_step; eauto|exact H]. }
    destruct (inv_reports_true s2 (reachable_inv s2 R2) Ht) as [e [c E2]].
    destruct (result_stable_after_done ops s1 s2 I1 eq_refl H) as [E3 _]. rewrite E3 in E2.
    cbn in E2. discriminate.
Qed.

(** the first activation of such a task only closes the payload and reports failed=False *)
Theorem cancelled_created_first_activation : forall s d r s', reachable s ->
  phase_of s = Created -> result s <> None -> step s (Start d r) = Some s' ->
  r = RNone /\ phase_of s' = Finished /\ reports s' = [false] /\ ran s' = false /\
  result s' = result s /\ done_sets s' = done_sets s.
Proof.
  intros s d r s' Rs Ph E St. assert (I := reachable_inv s Rs).
  cbn in St. rewrite Ph in St. destruct (result s) eqn:Er; [|contradiction].
  destruct r; cbn in St; try discriminate. apply Some_inj in St; subst s'. cbn.
  repeat split; auto.
  - destruct (inv_reports s I) as [[R _]|[b [R P]]]; [rewrite R; reflexivity|congruence].
  - destruct (ran s) eqn:Rn; [|reflexivity]. destruct (inv_ran s I Rn); congruence.
Qed.

(** ---------- 6. cancelling a suspended task: CancelTask scheduled now, raised in the same time step ---------- *)

(** cancel() of an unfinished, started task changes nothing but the queue of the current time step *)
Theorem cancel_schedules_now : forall s tok, result s = None -> phase_of s <> Created ->
  step s (Cancel tok) = Some (set_pending s (pending s ++ [(tok, now s)])%list).
Proof. intros s tok E Ph. cbn. rewrite E. destruct (phase_of s); [contradiction| | |]; reflexivity. Qed.

(** every pending CancelTask was scheduled in the current time step ... *)
Theorem pending_same_step : forall s, reachable s ->
  forall tok t, In (tok, t) (pending s) -> t = now s.
Proof.
  intros s Rs tok t Hin. assert (F := inv_pending_now s (reachable_inv s Rs)).
  rewrite Forall_forall in F. apply (F (tok, t) Hin).
Qed.

(** ... because time cannot advance while one is pending (or before the first activation) *)
Theorem no_tick_while_pending : forall s, pending s <> [] -> step s Tick = None.
Proof. intros s H. cbn. destruct (pending s); [contradiction|reflexivity]. Qed.

Theorem no_tick_before_start : forall s, phase_of s = Created -> step s Tick = None.
Proof. intros s H. cbn. rewrite H. destruct (pending s); reflexivity. Qed.

Lemma remove_tok_some t l : (exists n, In (t, n) l) -> exists l', remove_tok t l = Some l'.
Proof.
  intros [n Hin]. induction l as [|[t' m] l IH]; [contradiction|]. cbn.
  destruct (Z.eqb_spec t t'); [eauto|]. destruct Hin as [H|H]; [inversion H; congruence|].
  destruct (IH H) as [l' ->]. eauto.
Qed.

(** a pending CancelTask can be raised inside the suspended task right away *)
Theorem deliver_enabled : forall s tok t, reachable s -> In (tok, t) (pending s) ->
  exists s', step s (Deliver tok (match phase_of s with Delaying => RNone | _ => RPropagate end)) = Some s'.
Proof.
  intros s tok t Rs Hin. assert (I := reachable_inv s Rs).
  destruct (remove_tok_some tok (pending s) (ex_intro _ t Hin)) as [l' Rm].
  cbn. rewrite Rm.
  assert (Hne : pending s <> []) by (intros C; rewrite C in Hin; contradiction).
  destruct (phase_of s) eqn:Ph; cbn; eauto.
  - exfalso. apply Hne. apply (inv_pending_created s I Ph).
  - exfalso. apply Hne. apply (inv_pending_result s I). apply (inv_finished s I Ph).
Qed.

(** a CancelTask that propagates out of the payload becomes the outcome TaskCancelled(task, token),
    reported with failed=False, in the time step in which cancel() was called *)
Theorem cancel_suspended_same_step : forall s tok r s', reachable s ->
  step s (Deliver tok r) = Some s' ->
  (exists t, In (tok, t) (pending s) /\ t = now s /\ now s' = now s) /\
  ((phase_of s = Suspended /\ r = RPropagate) \/ phase_of s = Delaying ->
   result s' = Some (Error (ECancelled tok)) /\ done s' = true /\ status_of s' = StCancelled /\
   reports s' = [false] /\ pending s' = [] /\ phase_of s' = Finished /\ ran s' = ran s).
Proof.
  intros s tok r s' Rs St. assert (I := reachable_inv s Rs).
  split.
  - cbn in St. destruct (remove_tok tok (pending s)) as [p'|] eqn:Rm; [|discriminate].
    destruct (remove_tok_In _ _ _ Rm) as [t Hin]. exists t. split; [assumption|].
    split; [eapply pending_same_step; eauto|].
    unfold react in St. destr_step St; apply Some_inj in St; subst s'; reflexivity.
  - assert (Hrep : phase_of s <> Finished -> reports s = []).
    { intros H. destruct (inv_reports s I) as [[R _]|[b [R P]]]; [assumption|contradiction]. }
    intros [[Ph ->]|Ph]; cbn in St; rewrite Ph in St;
      destruct (remove_tok tok (pending s)) as [p'|]; try discriminate; cbn in St;
      destr_step St; apply Some_inj in St; subst s'; cbn; rewrite Hrep by congruence; auto 10.
Qed.

(** first successful cancellation wins: later cancels / closes do not change the outcome *)
Theorem first_cancellation_wins : forall s tok ops s', reachable s ->
  result s = Some (Error (ECancelled tok)) -> run s ops = Some s' ->
  result s' = Some (Error (ECancelled tok)).
Proof.
  intros s tok ops s' Rs E R. assert (I := reachable_inv s Rs).
  assert (D : done s = true) by (apply (inv_done_result s I); congruence).
  destruct (result_stable_after_done ops s s' I D R) as [-> _]. assumption.
Qed.

(** ---------- 7. cancelling a finished task does nothing ---------- *)

Theorem cancel_finished_noop : forall s tok, result s <> None -> step s (Cancel tok) = Some s.
Proof. intros s tok E. cbn. destruct (result s); [reflexivity|contradiction]. Qed.

Theorem close_finished_noop : forall s reason, result s <> None -> step s (Close reason CPass) = Some s.
Proof. intros s reason E. cbn. destruct (result s); [reflexivity|contradiction]. Qed.

(** ---------- 8. only a genuine exception is reported as a failure to the parent ---------- *)

Definition genuine (o : op) : Prop :=
  match o with
  | Start _ (RRaise _ _) | Resume (RRaise _ _) | Deliver _ (RRaise _ _) | Close _ (CRaise _ _) => True
  | _ => False
  end.

Theorem report_step : forall s o s', Inv s -> step s o = Some s' ->
  reports s' = reports s \/ (exists b, reports s' = b :: reports s /\ (b = true -> genuine o)).
Proof.
  intros s o s' I St.
  step_cases s o s' I St; cbn; auto;
    right; eexists; (split; [reflexivity|]); intros C; try discriminate C; exact Logic.I.
Qed.

(** cancel() never reports anything by itself; a cancellation / closure that goes through reports
    failed=False (see cancel_suspended_same_step); __child_finished__ is called exactly once per task *)
Theorem cancel_never_fails_parent : forall s, reachable s ->
  (forall tok s', step s (Cancel tok) = Some s' -> reports s' = reports s) /\
  (reports s = [] /\ phase_of s <> Finished \/
   reports s = [false] /\ phase_of s = Finished \/
   reports s = [true] /\ phase_of s = Finished /\ exists e c, result s = Some (Error (ERaised e c))) /\
  (forall x, result s = Some (Error (ECancelled x)) \/ result s = Some (Error (EClosed x)) \/
             result s = Some (Value x) -> ~ In true (reports s)).
Proof.
  intros s Rs. assert (I := reachable_inv s Rs). split; [|split].
  - intros tok s' St. cbn in St. destr_step St; apply Some_inj in St; subst s'; reflexivity.
  - destruct (inv_reports s I) as [[R P]|[b [R P]]]; [left; auto|]. right.
    destruct b; [right|left; auto]. split; [assumption|]. split; [assumption|].
    apply (inv_reports_true s I). rewrite R. left; reflexivity.
  - intros x H Ht. destruct (inv_reports_true s I Ht) as [e [c E]].
    destruct H as [H|[H|H]]; rewrite E in H; discriminate.
Qed.

(** ---------- TaskState table regenerated from the source ---------- *)

Theorem status_in_table : forall st, In (status_name st, status_code_str st) gen_taskstate.
Proof. rewrite taskstate_agrees. destruct st; cbn; tauto. Qed.

Theorem finished_in_table : In ("FINISHED", "CANCELLED+FAILED+SUCCESS")%string gen_taskstate /\
  forall st, terminal st = true <-> In (status_name st) ["CANCELLED"; "FAILED"; "SUCCESS"]%string.
Proof.
  rewrite taskstate_agrees. split; [cbn; tauto|].
  destruct st; cbn; split; intros H; try discriminate; try tauto;
    repeat (destruct H as [H|H]; try discriminate H); contradiction.
Qed.

(** ---------- the hypotheses are satisfiable: concrete histories ---------- *)

Example cancel_while_suspended :
  option_map project
    (run init [Start false RSuspend; AwaitStart 1; Cancel 7; Cancel 8; Deliver 7 RPropagate;
               AwaitComplete 1; Tick; AwaitStart 2; AwaitComplete 2; Cancel 9])
  = Some [4; 2; 7; 1; 1; 1; 1; 0; 2; 2; 7].
Proof. reflexivity. Qed.

Example cancel_before_start :
  option_map project (run init [AwaitStart 1; Cancel 3; Start false RNone; AwaitComplete 1])
  = Some [4; 2; 3; 1; 1; 0; 1; 0; 1; 2; 3].
Proof. reflexivity. Qed.

Example genuine_failure :
  option_map project (run init [Start true RNone; Tick; Resume RSuspend; Cancel 5; Deliver 5 (RRaise 9 false)])
  = Some [8; 4; 9; 1; 1; 1; 0; 1; 0; 0; 0].
Proof. reflexivity. Qed.

Example closed_while_suspended :
  option_map project (run init [Start false RSuspend; Tick; Close 1 CPass; Cancel 4])
  = Some [4; 3; 1; 1; 1; 1; 1; 0; 0; 0; 0].
Proof. reflexivity. Qed.

Example tick_blocked_by_pending_cancel :
  run init [Start false RSuspend; Cancel 7; Tick] = None.
Proof. reflexivity. Qed.

Example reachable_suspended : exists s, reachable s /\ phase_of s = Suspended /\ result s = None.
Proof. eexists. split; [exists [Start false RSuspend]; reflexivity|]. split; reflexivity. Qed.

Example reachable_created : reachable init /\ phase_of init = Created /\ result init = None.
Proof. split; [exists []; reflexivity|]. split; reflexivity. Qed.
