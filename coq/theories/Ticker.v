(** C14 -- model of usim.interval / usim.delay (usim/_primitives/timing.py, end of file).

    One ticker is driven by a consumer `async for now in interval(p): <body k>`; body k takes
    d_k >= 0 units of virtual time (`await (time + d_k)`, nothing for 0).  After the last body the
    consumer asks for one more tick (so that every duration is examined) and leaves the loop.
    Times are integers.  The optional horizon is the absolute date at which an enclosing
    `until(time + T)` interrupts the activity: nothing of this activity happens at a date >= horizon
    (the interrupt was scheduled first, so it is first in the bucket of that date).            *)
From Coq Require Import List ZArith Bool Lia.
Import ListNotations.
Open Scope Z_scope.

(** how one step handed control back to the event loop *)
Inductive how := Postpone | Suspend (r : Z).

Record tick := mkTick {
  tk_time  : Z;     (* time.now when the body is resumed *)
  tk_value : Z;     (* the value the iterator yielded    *)
  tk_how   : how }. (* postpone() or suspend(delay=r)    *)

Inductive outcome := Completed | Exceeded | ValueErr | Interrupted.

(** `await postpone()` / `await suspend(delay=r)`: the date at which the activity continues *)
Definition wait (h : how) (now : Z) : Z :=
  match h with Postpone => now | Suspend r => now + r end.

Definition is_suspend (h : how) : bool := match h with Suspend _ => true | Postpone => false end.

Section Horizon.
Variable H : option Z.

Definition cut (t : Z) : bool := match H with Some h => h <=? t | None => false end.

(** interval():   while True:
                    remaining_delay = last_time + period - time.now
                    if remaining_delay < 0: raise IntervalExceeded()
                    elif remaining_delay > 0: await suspend(delay=remaining_delay, until=None)
                    else: await postpone()
                    last_time = time.now
                    yield last_time                                                        *)
Fixpoint interval_loop (p last now : Z) (ds : list Z) {struct ds} : list tick * outcome :=
  let rem := last + p - now in
  if rem <? 0 then ([], Exceeded)
  else
    let h := if 0 <? rem then Suspend rem else Postpone in
    let now' := wait h now in
    if is_suspend h && cut now' then ([], Interrupted)
    else
      let last' := now' in
      let tk := mkTick now' last' h in
      match ds with
      | [] => ([tk], Completed)
      | d :: ds' =>
          if (0 <? d) && cut (now' + d) then ([tk], Interrupted)
          else let '(l, o) := interval_loop p last' (now' + d) ds' in (tk :: l, o)
      end.

Definition interval_run (start p : Z) (ds : list Z) : list tick * outcome :=
  if p <? 0 then ([], ValueErr) else interval_loop p start start ds.

(** delay():  if period > 0: while True: await suspend(delay=period, until=None); yield time.now
              else:          while True: await postpone();                        yield time.now   *)
Fixpoint delay_loop (h : how) (now : Z) (ds : list Z) {struct ds} : list tick * outcome :=
  let now' := wait h now in
  if is_suspend h && cut now' then ([], Interrupted)
  else
    let tk := mkTick now' now' h in
    match ds with
    | [] => ([tk], Completed)
    | d :: ds' =>
        if (0 <? d) && cut (now' + d) then ([tk], Interrupted)
        else let '(l, o) := delay_loop h (now' + d) ds' in (tk :: l, o)
    end.

Definition delay_run (start p : Z) (ds : list Z) : list tick * outcome :=
  if p <? 0 then ([], ValueErr)
  else delay_loop (if 0 <? p then Suspend p else Postpone) start ds.

End Horizon.

(** index of the first body that took longer than the period *)
Fixpoint first_over (p : Z) (ds : list Z) : option nat :=
  match ds with
  | [] => None
  | d :: ds' => if p <? d then Some O else option_map S (first_over p ds')
  end.

Fixpoint sum_firstn (k : nat) (ds : list Z) : Z :=
  match k, ds with
  | S k', d :: ds' => d + sum_firstn k' ds'
  | _, _ => 0
  end.

(** ---- interface of the generated case files ---- *)
Definition enc_how (h : how) : Z := match h with Postpone => 0 | Suspend r => r end.
Definition enc_tick (tk : tick) : Z * Z * Z := (tk_time tk, tk_value tk, enc_how (tk_how tk)).
Definition enc_outcome (o : outcome) : Z :=
  match o with Completed => 0 | Exceeded => 1 | ValueErr => 2 | Interrupted => 3 end.

(** a case: is_delay, horizon, start, period, durations *)
Definition case := (bool * option Z * Z * Z * list Z)%type.
Definition observed := (list (Z * Z * Z) * Z)%type.

Definition run_case (c : case) : observed :=
  let '(is_delay, hz, start, p, ds) := c in
  let '(l, o) := if is_delay then delay_run hz start p ds else interval_run hz start p ds in
  (map enc_tick l, enc_outcome o).

Definition triple_eqb (a b : Z * Z * Z) : bool :=
  let '(a1, a2, a3) := a in let '(b1, b2, b3) := b in (a1 =? b1) && (a2 =? b2) && (a3 =? b3).

Fixpoint list_eqb {A} (e : A -> A -> bool) (a b : list A) : bool :=
  match a, b with
  | [], [] => true
  | x :: a', y :: b' => e x y && list_eqb e a' b'
  | _, _ => false
  end.

Definition observed_eqb (a b : observed) : bool :=
  list_eqb triple_eqb (fst a) (fst b) && (snd a =? snd b).

Fixpoint bad_from (i : nat) (cs : list (case * observed)) : list nat :=
  match cs with
  | [] => []
  | (c, o) :: r => if observed_eqb (run_case c) o then bad_from (S i) r else i :: bad_from (S i) r
  end.

(** indices of the cases on which model and implementation differ *)
Definition bad_cases := bad_from O.
