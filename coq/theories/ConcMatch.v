(** C17 - model of usim/_primitives/concurrent_exception.py

    Classes.  A plain exception class is a natural number; the (real) inheritance between plain
    classes is an arbitrary relation [sub : cls -> cls -> bool] (section variable; the theorems in
    ConcMatchProps.v assume reflexivity / transitivity only where they need it).  A class of the
    Concurrent family is [Bare] (the template `Concurrent`) or [Spec members inclusive]
    (`Concurrent[m1, m2]`, `Concurrent[m1, ...]`).  Members are classes again, so a member may be a
    specialised Concurrent class (nested failures).

    The member list of a [Spec] is kept in the order in which the class happened to be created
    (the implementation iterates a frozenset, i.e. an arbitrary order, possibly after removing
    duplicates); the theorems show that neither order nor multiplicity can be observed.

    Class identity (`is`) is [same]: the implementation keeps one class per frozenset of members
    (+ Ellipsis) in `__specialisations__`, members being compared by identity. *)
From Coq Require Import List Bool Arith ZArith.
Import ListNotations.

Definition cls := nat.

Inductive ty :=
| Plain (c : cls)
| Bare
| Spec (members : list ty) (inclusive : bool).

(** an exception instance: a plain exception (class, serial number of the instance) or a Concurrent
    with children.  [Node []] is `Concurrent()` *)
Inductive exc :=
| Leaf (c : cls) (serial : nat)
| Node (children : list exc).

(** ** class identity: `a is b` *)
Fixpoint same (a b : ty) {struct a} : bool :=
  match a with
  | Plain x => match b with Plain y => Nat.eqb x y | _ => false end
  | Bare => match b with Bare => true | _ => false end
  | Spec m1 i1 =>
      match b with
      | Spec m2 i2 =>
          Bool.eqb i1 i2
          && forallb (fun x => existsb (fun y => same x y) m2) m1
          && forallb (fun y => existsb (fun x => same x y) m1) m2
      | _ => false
      end
  end.

(** ** MetaConcurrent.__getitem__ / _get_specialisation *)
Inductive item := IEll | ITy (t : ty).
Inductive subscript := One (i : item) | Tuple (l : list item).

Definition item_tys (l : list item) : list ty :=
  flat_map (fun i => match i with IEll => [] | ITy t => [t] end) l.
Definition has_ell (l : list item) : bool :=
  existsb (fun i => match i with IEll => true | ITy _ => false end) l.

(** `Concurrent[s]` (on the template; subscripting a specialised class raises TypeError) *)
Definition getitem (s : subscript) : ty :=
  match s with
  | One IEll => Bare                                   (* Cls[...] is Cls *)
  | One (ITy t) => Spec [t] false                      (* item = (item,) *)
  | Tuple l => Spec (item_tys l) (has_ell l)           (* inclusive = ... in unique_spec *)
  end.

(** ** type(instance); Concurrent.__new__ specialises by the children's types *)
Fixpoint type_of (e : exc) : ty :=
  match e with
  | Leaf c _ => Plain c
  | Node l => match l with [] => Bare | _ => Spec (map type_of l) false end
  end.

Definition new_type (children : list exc) : ty :=
  match children with
  | [] => Bare
  | _ => getitem (Tuple (map (fun e => ITy (type_of e)) children))
  end.

Section Match.
  Variable sub : cls -> cls -> bool.

  (** ** `issubclass(c, h)` for any two classes of the universe.
      [h = Plain]: ordinary inheritance; a Concurrent class derives from BaseException only.
      [h = Bare | Spec]: MetaConcurrent.__subclasscheck__(h, c):
        `cls is subclass` -> True; no `template` attribute (plain class) -> False;
        `cls.specialisations is None` -> True; else _subclasscheck_specialisation.
      ([c = Bare] against a [Spec] makes the implementation iterate `None` (TypeError): outside the
      domain, see design_notes/C17.md; the model says false.) *)
  Fixpoint issub (c h : ty) {struct h} : bool :=
    match h with
    | Plain s => match c with Plain k => sub k s | _ => false end
    | Bare => match c with Plain _ => false | _ => true end
    | Spec hs hi =>
        match c with
        | Spec cs _ =>
            same c (Spec hs hi)
            || (forallb (fun s => existsb (fun ch => issub ch s) cs) hs
                && (hi
                    || negb (existsb (fun ch => negb (existsb (fun s => issub ch s) hs)) cs)))
        | _ => false
        end
    end.

  (** `isinstance(e, h)`: C fast path `type(e) is h`, else `h.__instancecheck__(e)` which is
      `h.__subclasscheck__(type(e))` *)
  Definition isinstance (e : exc) (h : ty) : bool :=
    same (type_of e) h || issub (type_of e) h.

  (** what `try: raise e / except h:` really does on CPython 3: `h in type(e).__mro__`
      (PyType_IsSubtype), `__subclasscheck__` is not consulted.  The MRO of a specialised class is
      [itself; Concurrent; BaseException; object] *)
  Definition except_catches (e : exc) (h : ty) : bool :=
    match type_of e, h with
    | Plain k, Plain s => sub k s
    | Plain _, _ => false
    | _, Plain _ => false
    | _, Bare => true
    | Bare, Spec _ _ => false
    | Spec cs ci, Spec _ _ => same (Spec cs ci) h
    end.
End Match.

(** ** flattened() *)
Definition is_node (e : exc) : bool := match e with Node _ => true | Leaf _ _ => false end.

Fixpoint leaves (e : exc) : list (cls * nat) :=
  match e with
  | Leaf c i => [(c, i)]
  | Node l => flat_map leaves l
  end.

(** `self.flattened().children` *)
Fixpoint flat_children (e : exc) : list exc :=
  match e with
  | Leaf c i => [Leaf c i]
  | Node l =>
      if negb (existsb is_node l) then l
      else flat_map (fun ch => match ch with
                               | Leaf _ _ => [ch]
                               | Node _ => flat_children ch
                               end) l
  end.

Definition flattened (e : exc) : exc :=
  match e with Leaf _ _ => e | Node _ => Node (flat_children e) end.

(** `self.flattened() is self` *)
Definition flattened_is_self (e : exc) : bool :=
  match e with Leaf _ _ => true | Node l => negb (existsb is_node l) end.

(** ** the `__specialisations__` cache (a WeakValueDictionary keyed by frozenset(item)).
    A class object is represented by the number it got when it was created. *)
Definition key := (list ty * bool)%type.
Definition key_ty (k : key) : ty := Spec (fst k) (snd k).
Definition key_same (k1 k2 : key) : bool := same (key_ty k1) (key_ty k2).

Record cache := { next : nat; entries : list (key * nat) }.
Definition empty_cache : cache := {| next := 0; entries := [] |}.

Definition lookup (c : cache) (k : key) : option (key * nat) :=
  find (fun e => key_same (fst e) k) (entries c).

Definition get_spec (c : cache) (k : key) : cache * nat :=
  match lookup c k with
  | Some e => (c, snd e)
  | None => ({| next := S (next c); entries := (k, next c) :: entries c |}, next c)
  end.

(** the garbage collector drops a class nobody references any more *)
Definition evict (c : cache) (id : nat) : cache :=
  {| next := next c; entries := filter (fun e => negb (Nat.eqb (snd e) id)) (entries c) |}.

Inductive cop := Get (k : key) | Evict (id : nat).
Definition cstep (c : cache) (o : cop) : cache :=
  match o with Get k => fst (get_spec c k) | Evict id => evict c id end.
Definition crun (c : cache) (ops : list cop) : cache := fold_left cstep ops c.

(** ** the concrete hierarchy of the correspondence check:
    0=A  1=B(A)  2=C(B)  3=D  4=E(D)  5=F ; every other number is an unrelated class *)
Definition hier_parent (c : cls) : option cls :=
  match c with 1 => Some 0 | 2 => Some 1 | 4 => Some 3 | _ => None end.
Definition hier_sub (a b : cls) : bool :=
  Nat.eqb a b
  || match hier_parent a with
     | Some p => Nat.eqb p b
                 || match hier_parent p with Some q => Nat.eqb q b | None => false end
     | None => false
     end.

(** ** helpers for the generated case files *)
Fixpoint filter_idx_from {A} (n : nat) (f : A -> bool) (l : list A) : list nat :=
  match l with
  | [] => []
  | x :: r => if f x then n :: filter_idx_from (S n) f r else filter_idx_from (S n) f r
  end.
Definition filter_idx {A} (f : A -> bool) (l : list A) : list nat := filter_idx_from 0 f l.

Fixpoint nat_list_eqb (a b : list nat) : bool :=
  match a, b with
  | [], [] => true
  | x :: r, y :: s => Nat.eqb x y && nat_list_eqb r s
  | _, _ => false
  end.

Fixpoint leaf_list_eqb (a b : list (cls * nat)) : bool :=
  match a, b with
  | [], [] => true
  | (x, i) :: r, (y, j) :: s => Nat.eqb x y && Nat.eqb i j && leaf_list_eqb r s
  | _, _ => false
  end.

(** one row of the exhaustive table: a raised failure and, per verdict (isinstance, issubclass on the
    type, real except clause), what the implementation said for every handler of the table.  Result:
    codes kind * 10^6 + row * 10^3 + handler of every disagreeing pair *)
Definition row := (nat * exc * (list bool * list bool * list bool))%type.

Fixpoint diff_bools (kind row_ j : nat) (model impl : list bool) : list Z :=
  match model, impl with
  | m :: ms, i :: is_ =>
      (if Bool.eqb m i then []
       else [(Z.of_nat kind * 1000000 + Z.of_nat row_ * 1000 + Z.of_nat j)%Z])
      ++ diff_bools kind row_ (S j) ms is_
  | [], [] => []
  | _, _ => [(-1)%Z]
  end.

Definition bad_row (sub : cls -> cls -> bool) (hs : list ty) (r : row) : list Z :=
  match r with
  | (i, e, (inst, subc, exct)) =>
      diff_bools 1 i 0 (map (isinstance sub e) hs) inst
      ++ diff_bools 2 i 0 (map (issub sub (type_of e)) hs) subc
      ++ diff_bools 3 i 0 (map (except_catches sub e) hs) exct
  end.
Definition bad_rows sub hs (rows : list row) : list Z := flat_map (bad_row sub hs) rows.

(** single pairs (random deep family): (raised, handler, isinstance, issubclass, except) *)
Definition pair_case := (exc * ty * (bool * bool * bool))%type.
Definition bad_pair (sub : cls -> cls -> bool) (p : pair_case) : bool :=
  match p with
  | (e, h, (bi, bs, be)) =>
      negb (Bool.eqb (isinstance sub e h) bi && Bool.eqb (issub sub (type_of e) h) bs
            && Bool.eqb (except_catches sub e h) be)
  end.
Definition bad_pairs sub (l : list pair_case) : list nat := filter_idx (bad_pair sub) l.

(** identity table: classes with the number of the first identical class object in the table *)
Definition bad_ident (tys : list (ty * Z)) : list Z :=
  flat_map (fun '(i, (a, ia)) =>
    flat_map (fun '(j, (b, ib)) =>
      if Bool.eqb (same a b) (Z.eqb ia ib) then [] else [(Z.of_nat i * 10000 + Z.of_nat j)%Z])
      (combine (seq 0 (length tys)) tys))
    (combine (seq 0 (length tys)) tys).

(** flattened(): (failure, leaves of the result in order).  Whether the result is `self` is an
    implementation detail ([flattened_is_self]) and deliberately not compared. *)
Definition flat_case := (exc * list (cls * nat))%type.
Definition bad_flat (c : flat_case) : bool :=
  match c with
  | (e, lv) =>
      negb (leaf_list_eqb (leaves (flattened e)) lv
            && leaf_list_eqb (leaves e) lv
            && negb (existsb is_node (match flattened e with Node l => l | _ => [] end)))
  end.
Definition bad_flats (l : list flat_case) : list nat := filter_idx bad_flat l.

(** the hierarchy table itself: (a, b, issubclass(a, b)) as seen by Python *)
Definition bad_hier (l : list (nat * nat * bool)) : list nat :=
  filter_idx (fun '(a, b, r) => negb (Bool.eqb (hier_sub a b) r)) l.
