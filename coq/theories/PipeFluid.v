(** C13 - usim/_basics/pipe.py: proportional sharing of a Pipe's throughput.

    Two executable machines over exact rationals [Q]:

    * the WINDOWED machine ([st], [join]/[cancel]/[tick]/[advance]) transcribes what
      [Pipe.transfer] does: every transfer owns a window (start, rate) and a lump
      [transferred]; [_throttle_subscribers] recomputes [_throughput_scale] and wakes
      every transfer through [_congested] when the pipe is congested or the stored
      scale is not 1; a woken transfer adds [(window_end - window_start) * rate] to
      [transferred] and opens a new window with the scale it reads then; the timer of
      a window fires at [window_start + (total - transferred) / rate];
    * the FLUID machine ([fstate], [fjoin]/[fcancel]/[ftick]/[fadvance]) is the specification:
      amounts grow with the piecewise constant rate [limit * scale_of T (sum of limits)]
      of the current membership, a transfer leaves when its amount reaches its volume.

    Proofs are in PipeFluidProps.v. *)
From Coq Require Import QArith ZArith List Bool.
Import ListNotations.
Open Scope Q_scope.

(** extended values: [float('inf')] as throughput of the pipe or limit of a transfer *)
Inductive ext := Fin (q : Q) | Inf.

(** [_throttle_subscribers]: scale = T / desired if desired > T else 1 ([desired > inf] is False) *)
Definition scale_of (T : ext) (d : Q) : Q :=
  match T with
  | Fin t => if Qle_bool d t then 1 else t / d
  | Inf => 1
  end.

Definition rate_of (T : ext) (d l : Q) : Q := l * scale_of T d.

(** first minimal key, with its index *)
Fixpoint argmin (ks : list Q) : option (nat * Q) :=
  match ks with
  | [] => None
  | k :: r => match argmin r with
              | None => Some (0%nat, k)
              | Some (i, m) => if Qle_bool k m then Some (0%nat, k) else Some (S i, m)
              end
  end.

Fixpoint remove_nth {A} (i : nat) (l : list A) : list A :=
  match l, i with
  | [], _ => []
  | _ :: r, O => r
  | a :: r, S j => a :: remove_nth j r
  end.

(** bound of an advance: a time, or [Inf] = run until the pipe is empty *)
Definition le_ext (d : Q) (b : ext) : bool :=
  match b with Fin t => Qle_bool d t | Inf => true end.

(** * The windowed machine (what the code does) *)

Record xfer := mkX {
  xid : Z;      (* identifier *)
  xlim : Q;     (* `throughput` argument (finite) *)
  xvol : Q;     (* `total` *)
  xtr : Q;      (* `transferred` *)
  xws : Q;      (* `window_start` *)
  xwr : Q       (* `window_throughput` *)
}.

Record st := mkS {
  thr : ext;              (* Pipe.throughput *)
  now : Q;                (* time.now *)
  scl : Q;                (* Pipe._throughput_scale *)
  act : list xfer;        (* Pipe._subscriptions, with the local variables of each transfer *)
  fin : list (Z * Q)      (* completed transfers: identifier, completion time *)
}.

Definition init (T : ext) : st := mkS T 0 1 [] [].

Definition sum_lim (xs : list xfer) : Q := fold_right (fun x a => xlim x + a) 0 xs.

(** a transfer woken through [_congested]: close the window, open the next one *)
Definition replan (t sc : Q) (x : xfer) : xfer :=
  mkX (xid x) (xlim x) (xvol x) (xtr x + (t - xws x) * xwr x) t (xlim x * sc).

Definition wake (s : st) (sc : Q) (acts : list xfer) : st :=
  mkS (thr s) (now s) sc (map (replan (now s) sc) acts) (fin s).

(** the [elif self._throughput_scale != 1.0] branch *)
Definition relax (s : st) (acts : list xfer) : st :=
  if Qeq_bool (scl s) 1 then mkS (thr s) (now s) (scl s) acts (fin s) else wake s 1 acts.

(** [_throttle_subscribers] after the membership became [acts] *)
Definition throttle (s : st) (acts : list xfer) : st :=
  let d := sum_lim acts in
  match thr s with
  | Fin t => if Qle_bool d t then relax s acts else wake s (t / d) acts
  | Inf => relax s acts
  end.

(** [transfer(total=v, throughput=l)] entered at [now s].  The new transfer is not woken, it
    reads the scale after [_add_subscriber]: with [xwr = l * scl s] before the throttle it ends
    up with [l * new scale] in every branch (its own zero-length re-plan adds [0 * rate]).
    An infinite limit never enters the sharing: [total / inf = 0] -> postpone, done at [now]
    (on a pipe of infinite throughput the scale is 1 whatever the membership). *)
Definition join (s : st) (id : Z) (v : Q) (l : ext) : st :=
  match l with
  | Inf => mkS (thr s) (now s) (scl s) (act s) (fin s ++ [(id, now s)])
  | Fin l => throttle s (act s ++ [mkX id l v 0 (now s) (l * scl s)])
  end.

Definition has_id (id : Z) (x : xfer) : bool := Z.eqb (xid x) id.

(** cancel / interrupt of an active transfer: [finally: _del_subscriber] *)
Definition cancel (s : st) (id : Z) : st :=
  if existsb (has_id id) (act s)
  then throttle s (filter (fun x => negb (has_id id x)) (act s))
  else s.

(** when the timer of the current window fires *)
Definition due (x : xfer) : Q := xws x + (xvol x - xtr x) / xwr x.

(** the earliest timer fires: that transfer is done and unsubscribes *)
Definition tick (s : st) : st :=
  match argmin (map due (act s)) with
  | None => s
  | Some (i, d) =>
    match nth_error (act s) i with
    | None => s
    | Some x => throttle (mkS (thr s) d (scl s) (act s) (fin s ++ [(xid x, d)]))
                         (remove_nth i (act s))
    end
  end.

Definition set_now (s : st) (b : ext) : st :=
  match b with
  | Fin t => if Qle_bool (now s) t then mkS (thr s) t (scl s) (act s) (fin s) else s
  | Inf => s
  end.

(** let time pass up to [b]: every timer due by then fires, in order *)
Fixpoint advance (fuel : nat) (s : st) (b : ext) : st :=
  match fuel with
  | O => set_now s b
  | S f => match argmin (map due (act s)) with
           | Some (_, d) => if le_ext d b then advance f (tick s) b else set_now s b
           | None => set_now s b
           end
  end.

Inductive op :=
| Join (t : Q) (id : Z) (v : Q) (l : ext)
| Cancel (t : Q) (id : Z).

Definition apply (s : st) (o : op) : st :=
  match o with
  | Join t id v l => join (advance (length (act s)) s (Fin t)) id v l
  | Cancel t id => cancel (advance (length (act s)) s (Fin t)) id
  end.

Definition drain (s : st) : st := advance (length (act s)) s Inf.

Definition run_st (T : ext) (ops : list op) : st := drain (fold_left apply ops (init T)).
Definition run (T : ext) (ops : list op) : list (Z * Q) := fin (run_st T ops).

(** * The fluid machine (the specification) *)

Record fx := mkF { fid : Z; flim : Q; fvol : Q; famt : Q }.

Record fstate := mkFS { fthr : ext; fnow : Q; fact : list fx; ffin : list (Z * Q) }.

Definition finit (T : ext) : fstate := mkFS T 0 [] [].

Definition sum_flim (ys : list fx) : Q := fold_right (fun y a => flim y + a) 0 ys.

(** the rate of [y] while the membership is [fact f] *)
Definition frate (f : fstate) (y : fx) : Q := rate_of (fthr f) (sum_flim (fact f)) (flim y).

(** integrate the (constant) rates from [fnow f] to [t] *)
Definition flow_to (f : fstate) (t : Q) : fstate :=
  mkFS (fthr f) t
       (map (fun y => mkF (fid y) (flim y) (fvol y) (famt y + (t - fnow f) * frate f y)) (fact f))
       (ffin f).

(** when [y] would reach its volume at the current rates *)
Definition freach (f : fstate) (y : fx) : Q := fnow f + (fvol y - famt y) / frate f y.

Definition fjoin (f : fstate) (id : Z) (v : Q) (l : ext) : fstate :=
  match l with
  | Inf => mkFS (fthr f) (fnow f) (fact f) (ffin f ++ [(id, fnow f)])
  | Fin l => mkFS (fthr f) (fnow f) (fact f ++ [mkF id l v 0]) (ffin f)
  end.

Definition fhas_id (id : Z) (y : fx) : bool := Z.eqb (fid y) id.

Definition fcancel (f : fstate) (id : Z) : fstate :=
  mkFS (fthr f) (fnow f) (filter (fun y => negb (fhas_id id y)) (fact f)) (ffin f).

Definition ftick (f : fstate) : fstate :=
  match argmin (map (freach f) (fact f)) with
  | None => f
  | Some (i, d) =>
    match nth_error (fact f) i with
    | None => f
    | Some y => let f1 := flow_to f d in
                mkFS (fthr f) d (remove_nth i (fact f1)) (ffin f ++ [(fid y, d)])
    end
  end.

Definition fset_now (f : fstate) (b : ext) : fstate :=
  match b with
  | Fin t => if Qle_bool (fnow f) t then flow_to f t else f
  | Inf => f
  end.

Fixpoint fadvance (fuel : nat) (f : fstate) (b : ext) : fstate :=
  match fuel with
  | O => fset_now f b
  | S k => match argmin (map (freach f) (fact f)) with
           | Some (_, d) => if le_ext d b then fadvance k (ftick f) b else fset_now f b
           | None => fset_now f b
           end
  end.

Definition fapply (f : fstate) (o : op) : fstate :=
  match o with
  | Join t id v l => fjoin (fadvance (length (fact f)) f (Fin t)) id v l
  | Cancel t id => fcancel (fadvance (length (fact f)) f (Fin t)) id
  end.

Definition fdrain (f : fstate) : fstate := fadvance (length (fact f)) f Inf.

Definition frun_st (T : ext) (ops : list op) : fstate := fdrain (fold_left fapply ops (finit T)).
Definition frun (T : ext) (ops : list op) : list (Z * Q) := ffin (frun_st T ops).

(** * Output for the correspondence check: [[id; numerator; denominator]; ...] *)
Definition out_fin (l : list (Z * Q)) : list (list Z) :=
  map (fun '(i, t) => let r := Qred t in [i; Qnum r; Zpos (Qden r)]) l.

(** histories come as integers: [[0; id; tn; td; vn; vd; ln; ld]] join ([ld = 0]: infinite limit),
    [[1; id; tn; td]] cancel *)
Definition mkq (n d : Z) : Q := Qmake n (Z.to_pos d).

Definition op_of (r : list Z) : option op :=
  match r with
  | [0%Z; id; tn; td; vn; vd; ln; ld] =>
    Some (Join (mkq tn td) id (mkq vn vd) (if Z.eqb ld 0 then Inf else Fin (mkq ln ld)))
  | [1%Z; id; tn; td] => Some (Cancel (mkq tn td) id)
  | _ => None
  end.

Fixpoint ops_of (rs : list (list Z)) : list op :=
  match rs with
  | [] => []
  | r :: k => match op_of r with Some o => o :: ops_of k | None => ops_of k end
  end.

(** a case: throughput (numerator, denominator; denominator 0 = infinite) and the history *)
Definition run_case (tn td : Z) (rs : list (list Z)) : list (list Z) :=
  out_fin (run (if Z.eqb td 0 then Inf else Fin (mkq tn td)) (ops_of rs)).
Definition frun_case (tn td : Z) (rs : list (list Z)) : list (list Z) :=
  out_fin (frun (if Z.eqb td 0 then Inf else Fin (mkq tn td)) (ops_of rs)).
