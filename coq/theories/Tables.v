(** Types shared between hand-written model tables and tables regenerated from /repo. *)
From Coq Require Import List String ZArith Bool Lia.
Import ListNotations.
Open Scope string_scope.

Inductive cmpop := Lt | Le | Eq | Ne | Ge | Gt.

Definition cmpop_eqb (a b : cmpop) : bool :=
  match a, b with
  | Lt, Lt | Le, Le | Eq, Eq | Ne, Ne | Ge, Ge | Gt, Gt => true
  | _, _ => false
  end.

Lemma cmpop_eqb_eq a b : cmpop_eqb a b = true <-> a = b.
Proof. destruct a, b; cbn; split; intro H; try reflexivity; try discriminate. Qed.

Definition all_cmpops : list cmpop := [Lt; Le; Eq; Ne; Ge; Gt].

Lemma all_cmpops_complete o : In o all_cmpops.
Proof. destruct o; cbn; tauto. Qed.

(** Python's comparison operators on integers *)
Definition cmp_eval (o : cmpop) (a b : Z) : bool :=
  match o with
  | Lt => (a <? b)%Z | Le => (a <=? b)%Z | Eq => (a =? b)%Z
  | Ne => negb (a =? b)%Z | Ge => (a >=? b)%Z | Gt => (a >? b)%Z
  end.

(** the model's own inverse (what `~(x op y)` must be) *)
Definition cmp_inverse (o : cmpop) : cmpop :=
  match o with Lt => Ge | Ge => Lt | Gt => Le | Le => Gt | Eq => Ne | Ne => Eq end.

Lemma cmp_inverse_spec o a b : cmp_eval (cmp_inverse o) a b = negb (cmp_eval o a b).
Proof.
  destruct o; cbn;
    repeat match goal with
           | |- context [(?x <? ?y)%Z] => destruct (Z.ltb_spec x y)
           | |- context [(?x <=? ?y)%Z] => destruct (Z.leb_spec x y)
           | |- context [(?x >=? ?y)%Z] => rewrite (Z.geb_leb x y)
           | |- context [(?x >? ?y)%Z] => rewrite (Z.gtb_ltb x y)
           | |- context [(?x =? ?y)%Z] => destruct (Z.eqb_spec x y)
           end; cbn; try reflexivity; try lia.
Qed.

Lemma cmp_inverse_involutive o : cmp_inverse (cmp_inverse o) = o.
Proof. destruct o; reflexivity. Qed.

Fixpoint lookup_cmp (t : list (cmpop * cmpop)) (o : cmpop) : option cmpop :=
  match t with
  | [] => None
  | (k, v) :: r => if cmpop_eqb k o then Some v else lookup_cmp r o
  end.

(** model tables: Scope.SUPPRESS_CONCURRENT / PROMOTE_CONCURRENT, EnvironmentScope.PROMOTE_CONCURRENT *)
Definition model_suppress : list string := ["TaskCancelled"; "TaskClosed"; "GeneratorExit"].
Definition model_promote : list string := ["SystemExit"; "KeyboardInterrupt"; "AssertionError"].
Definition model_env_promote : list string := model_promote ++ ["StopSimulation"].

Definition model_invert_class : list (string * string) :=
  [("After", "Before"); ("Before", "After"); ("Moment", "ERROR"); ("Eternity", "Instant");
   ("Instant", "Eternity"); ("All", "Any_of_inverted_children"); ("Any", "All_of_inverted_children");
   ("Flag", "InverseFlag"); ("InverseFlag", "Flag"); ("Done", "NotDone"); ("NotDone", "Done")].

Definition model_time_cmp : list (string * string) :=
  [("After", "Ge"); ("Before", "Lt"); ("Moment", "Eq"); ("Eternity", "ConstFalse"); ("Instant", "ConstTrue")].

Definition model_level_ops : list (string * (string * string)) :=
  [("__add__", ("binary_op", "+")); ("__sub__", ("binary_op", "-"));
   ("__gt__", ("comparison_op", ">")); ("__ge__", ("comparison_op", ">="));
   ("__le__", ("comparison_op", "<=")); ("__lt__", ("comparison_op", "<"));
   ("__eq__", ("comparison_op", "=="))].

Definition model_taskstate : list (string * string) :=
  [("CREATED", "1"); ("RUNNING", "2"); ("CANCELLED", "4"); ("FAILED", "8"); ("SUCCESS", "16");
   ("FINISHED", "CANCELLED+FAILED+SUCCESS")].

(** iterations over hash/address ordered containers that are allowed because their result is proved
    order independent (C17 spec_order_irrelevant: the frozenset of a specialisation) *)
Definition model_unordered_whitelist : list string :=
  ["usim/_primitives/concurrent_exception.py:unique_spec"].
