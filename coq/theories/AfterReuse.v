(** One time condition object ([time >= d]) used by several simulations (event loops), one after the other or nested.
    [After._ensure_trigger] must schedule the trigger activity once PER LOOP in which somebody subscribes before the date.
    State of the object: what it remembers about scheduling; the loops are abstract identities.
    - [ensure_fixed]: remembers the loop in which the trigger lives (the code after the repair of finding D24);
    - [ensure_flag]:  remembers a boolean (the code before the repair).
    Theorems: with [ensure_fixed] every loop that subscribes has a trigger of its own (for every history of uses); with
    [ensure_flag] the second loop has none ([_refuted]). *)
From Coq Require Import List Arith Bool.
Import ListNotations.

Definition loop := nat.

(** the triggers scheduled so far, per loop, and the object's memory *)
Record st (M : Type) := { mem : M; triggers : list loop }.
Arguments mem {M}. Arguments triggers {M}.

(** [_ensure_trigger] called by a subscriber running in loop [l] *)
Definition ensure_fixed (s : st (option loop)) (l : loop) : st (option loop) :=
  match mem s with
  | Some l' => if Nat.eqb l l' then s else {| mem := Some l; triggers := l :: triggers s |}
  | None => {| mem := Some l; triggers := l :: triggers s |}
  end.

Definition ensure_flag (s : st bool) (l : loop) : st bool :=
  if mem s then s else {| mem := true; triggers := l :: triggers s |}.

Definition run {M} (f : st M -> loop -> st M) (init : M) (uses : list loop) : st M :=
  fold_left f uses {| mem := init; triggers := [] |}.

Lemma fixed_step_keeps s l x : In x (triggers s) -> In x (triggers (ensure_fixed s l)).
Proof. unfold ensure_fixed. destruct (mem s) as [l'|]; [destruct (Nat.eqb l l')|]; cbn; auto. Qed.

Lemma fixed_step_has s l : (mem s = Some l -> In l (triggers s)) -> In l (triggers (ensure_fixed s l)).
Proof.
  unfold ensure_fixed. intros H. destruct (mem s) as [l'|] eqn:E.
  - destruct (Nat.eqb l l') eqn:El; cbn; [|left; reflexivity].
    apply Nat.eqb_eq in El. subst l'. apply H. reflexivity.
  - cbn. left. reflexivity.
Qed.

(** invariant: what the object remembers is a loop that has a trigger *)
Definition good (s : st (option loop)) : Prop := forall l, mem s = Some l -> In l (triggers s).

Lemma fixed_step_good s l : good s -> good (ensure_fixed s l).
Proof.
  unfold good, ensure_fixed. intros G k. destruct (mem s) as [l'|] eqn:E.
  - destruct (Nat.eqb l l') eqn:El; cbn.
    + rewrite E. intros H. apply G. exact H.
    + intros H. inversion H. left. reflexivity.
  - cbn. intros H. inversion H. left. reflexivity.
Qed.

Lemma fold_fixed_good uses : forall s, good s -> good (fold_left ensure_fixed uses s).
Proof. induction uses as [|l r IH]; intros s G; cbn; [exact G|]. apply IH. apply fixed_step_good. exact G. Qed.

Lemma fold_fixed_keeps uses : forall s x, In x (triggers s) -> In x (triggers (fold_left ensure_fixed uses s)).
Proof. induction uses as [|l r IH]; intros s x H; cbn; [exact H|]. apply IH. apply fixed_step_keeps. exact H. Qed.

(** every loop in which somebody subscribed has a trigger of its own, for EVERY history of uses (loops in any order,
    repeated, nested) *)
Theorem fixed_every_loop_has_a_trigger uses l : In l uses -> In l (triggers (run ensure_fixed None uses)).
Proof.
  unfold run.
  assert (G0 : good {| mem := (None : option loop); triggers := [] |}) by (intros k H; discriminate H).
  revert G0. generalize ({| mem := (None : option loop); triggers := [] |}).
  induction uses as [|u r IH]; intros s G Hin; [contradiction|].
  cbn. destruct Hin as [->|Hin].
  - apply fold_fixed_keeps. apply fixed_step_has. apply G.
  - apply IH; [apply fixed_step_good; exact G|exact Hin].
Qed.

(** and no loop gets a trigger without a subscriber *)
Theorem fixed_only_subscribed_loops uses l : In l (triggers (run ensure_fixed None uses)) -> In l uses.
Proof.
  assert (H : forall uses (s : st (option loop)), In l (triggers (fold_left ensure_fixed uses s)) -> In l (triggers s) \/ In l uses).
  { clear uses. induction uses as [|u r IH]; intros s Hin; cbn in *; [left; exact Hin|].
    destruct (IH _ Hin) as [H|H]; [|right; right; exact H].
    unfold ensure_fixed in H. destruct (mem s) as [l'|]; [destruct (Nat.eqb u l')|]; cbn in H;
      try (left; exact H); destruct H as [<-|H]; auto. }
  unfold run. intros Hin. destruct (H uses _ Hin) as [Hs|Hu]; [cbn in Hs; contradiction|exact Hu].
Qed.

(** the version before the repair: a second loop never gets a trigger *)
Theorem flag_second_loop_has_no_trigger_refuted :
  exists uses l, In l uses /\ ~ In l (triggers (run ensure_flag false uses)).
Proof. exists [1; 2], 2. split; [right; left; reflexivity|]. vm_compute. intros [H|[]]. discriminate H. Qed.

Example ex_nested : triggers (run ensure_fixed None [1; 2; 1; 2; 2; 3]) = [3; 2; 1; 2; 1].
Proof. vm_compute. reflexivity. Qed.
