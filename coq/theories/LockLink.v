(** Discipline lemmas for usim.Lock (DESIGN.md 2.2): the object-state effect of every atomic section of
    the machine's lock code (Lib.v: [lock_enter], [lock_exit], the subscription around the wait) IS a
    transition of the protocol LockProto, under an explicit relation [link] between the machine's object
    state and a protocol state.  Hence every invariant proved over [LockProto.reachable] holds of every
    machine object state reached through those sections (section "transfer" at the end).

    Layout
      1. object-state algebra (get/set lemmas)
      2. the relation [link o l wk s]
      3. building blocks: subscribe / unsubscribe / release / set owner, depth preserve [link]
      4. the sections as functions on [objs] ([sec_enter], [sec_wake], [sec_foreign], [sec_exit]) and one
         simulation lemma per section
      5. the sections are what [exec] does with the programs of Lib.v (symbolic execution, any machine
         state / stack / continuation)
      6. transfer of the protocol invariants (mutex, free_iff_idle, available_spec, ...) *)
From Coq Require Import ZArith List Bool Arith Lia.
From RecordUpdate Require Import RecordSet.
From Usim Require Import XTime Tables Kernel Machine Lib WaitSpecs.
From Usim Require LockProto LockProtoProps.
Import ListNotations.
Import RecordSetNotations.

Module LP := LockProto.
Module LPP := LockProtoProps.

(** * 1. object-state algebra *)

Lemma length_list_upd {A} (l : list A) i x : length (list_upd l i x) = length l.
Proof. revert i; induction l as [|y r IH]; intros [|i]; cbn; auto. Qed.

Lemma nth_list_upd_eq {A} (l : list A) i x d : i < length l -> nth i (list_upd l i x) d = x.
Proof.
  revert i; induction l as [|y r IH]; intros [|i]; cbn; intros H; try lia; auto. apply IH. lia.
Qed.

Lemma nth_list_upd_ne {A} (l : list A) i j x d : i <> j -> nth i (list_upd l j x) d = nth i l d.
Proof.
  revert i j; induction l as [|y r IH]; intros [|i] [|j] H; cbn; auto; try congruence.
Qed.

(** a primitive returns a new object state and kernel requests; the stepper ([step1], case [Prim]) applies
    the requests to the kernel of the state in which the primitive started *)
Definition app_ops (o : objs) (r : objs * list kop) : objs :=
  set_kern (fst r) (kapply_all (kern o) (snd r)).

Definition lnotif (o : objs) (l : nat) : nid := l_notif (get_lock o l).

Lemma get_lock_set_lock o l x : l < length (locks o) -> get_lock (set_lock o l x) l = x.
Proof. intros H. unfold get_lock, set_lock. cbn. apply nth_list_upd_eq. exact H. Qed.
Lemma get_lock_set_lock_ne o l l' x : l' <> l -> get_lock (set_lock o l x) l' = get_lock o l'.
Proof. intros H. unfold get_lock, set_lock. cbn. apply nth_list_upd_ne. exact H. Qed.
Lemma get_notif_set_notif o n x : n < length (notifs o) -> get_notif (set_notif o n x) n = x.
Proof. intros H. unfold get_notif, set_notif. cbn. apply nth_list_upd_eq. exact H. Qed.
Lemma get_notif_set_notif_ne o n n' x : n' <> n -> get_notif (set_notif o n x) n' = get_notif o n'.
Proof. intros H. unfold get_notif, set_notif. cbn. apply nth_list_upd_ne. exact H. Qed.

Lemma mem_sid_cons w x l : mem_sid w (x :: l) = Nat.eqb w x || mem_sid w l.
Proof. reflexivity. Qed.

(** * 2. the relation between a machine object state and a protocol state

    [wk a] (ghost) is the wake-up interrupt of the open subscription of activity [a]: the fresh signal
    that [Notification.__subscription__] allocated for it.  While [a] is queued the pair [(a, wk a)] is in
    the waiting list of the lock's notification; once it is designated (popped by [__awake_next__]) the
    signal lives only in the kernel ([scheduled]) and in the continuation of [a] (section 5).
    The relation does not mention the ghost components [ph], [tick], [ntick], [grants] of the protocol
    state at all: they are free, and are pinned down by [LockProtoProps.inv]. *)
Record linkf (o : objs) (l : nat) (wk : aid -> sid)
             (ow : option aid) (d : nat) (wt wo : list aid) : Prop := {
  k_lock : l < length (locks o);
  k_notif : lnotif o l < length (notifs o);
  k_plain : nk (get_notif o (lnotif o l)) = NPlain;
  k_owner : l_owner (get_lock o l) = ow;
  k_depth : l_depth (get_lock o l) = Z.of_nat d;
  k_waiting : Machine.waiting (get_notif o (lnotif o l)) = map (fun a => (a, wk a)) wt;
  k_woken : forall a, In a wo -> is_scheduled o (wk a) = true;
  k_queued : forall a, In a wt -> is_scheduled o (wk a) = false;
  k_alloc : forall a, In a (wo ++ wt) -> wk a < length (sigs o);
  k_inj : NoDup (map wk wt)
}.

Definition link (o : objs) (l : nat) (wk : aid -> sid) (s : LP.st) : Prop :=
  linkf o l wk (LP.owner s) (LP.depth s) (LP.waiting s) (LP.woken s).

(** the executable part of the projection: the fields of the real objects as logged by the event replay
    of C09 ([LockProto.project]), read off the machine state.  The designated waiters are found among
    the candidates [cands] (e.g. all activities) by the [scheduled] flag of their wake-up. *)
Definition proj_lock (o : objs) (l : nat) (wk : aid -> sid) (cands : list aid) : LP.proj :=
  (match l_owner (get_lock o l) with None => 0 | Some a => S a end,
   Z.to_nat (l_depth (get_lock o l)),
   map fst (Machine.waiting (get_notif o (lnotif o l))),
   filter (fun a => is_scheduled o (wk a)) cands).

Lemma map_fst_pairs (wk : aid -> sid) wt : map fst (map (fun a => (a, wk a)) wt) = wt.
Proof. induction wt; cbn; congruence. Qed.

Lemma filter_all {A} (f : A -> bool) l : (forall a, In a l -> f a = true) -> filter f l = l.
Proof.
  induction l as [|a r IH]; cbn; auto. intros H. rewrite H by (now left). f_equal. apply IH.
  intros b Hb. apply H. now right.
Qed.
Lemma filter_none {A} (f : A -> bool) l : (forall a, In a l -> f a = false) -> filter f l = [].
Proof.
  induction l as [|a r IH]; cbn; auto. intros H. rewrite H by (now left). apply IH.
  intros b Hb. apply H. now right.
Qed.

Lemma proj_lock_project o l wk s :
  link o l wk s -> proj_lock o l wk (LP.woken s ++ LP.waiting s) = LP.project s.
Proof.
  intros K. destruct K. unfold proj_lock, LP.project.
  rewrite k_owner0, k_depth0, k_waiting0, Nat2Z.id, map_fst_pairs, filter_app.
  rewrite (filter_all _ (LP.woken s)) by auto. rewrite (filter_none _ (LP.waiting s)) by auto.
  rewrite app_nil_r. reflexivity.
Qed.

(** anything that leaves the lock record, its notification, the kernel's [scheduled] flags of the open
    wake-ups alone and only allocates keeps the relation: this is the frame condition for all the other
    code of the machine (other locks, queues, scopes, the kernel popping activations, ...) *)
Lemma link_frame o o' l wk s :
  link o l wk s ->
  length (locks o') = length (locks o) -> length (notifs o) <= length (notifs o') ->
  length (sigs o) <= length (sigs o') ->
  get_lock o' l = get_lock o l ->
  get_notif o' (lnotif o l) = get_notif o (lnotif o l) ->
  (forall a, In a (LP.woken s ++ LP.waiting s) -> is_scheduled o' (wk a) = is_scheduled o (wk a)) ->
  link o' l wk s.
Proof.
  intros K Hl Hn Hs El En Es. destruct K.
  assert (E : lnotif o' l = lnotif o l) by (unfold lnotif; now rewrite El).
  constructor; rewrite ?E, ?El, ?En; auto; try lia.
  - intros a Ha. rewrite Es; auto. apply in_or_app; auto.
  - intros a Ha. rewrite Es; auto. apply in_or_app; auto.
  - intros a Ha. specialize (k_alloc0 a Ha). lia.
Qed.

(** * 3. building blocks: each operation of the code on the real objects preserves [link] and is the
      corresponding operation of the protocol *)

(** rewriting the lock record (owner, depth) *)
Lemma linkf_set_lock o l wk ow d wt wo x ow' d' :
  linkf o l wk ow d wt wo ->
  l_notif x = lnotif o l -> l_owner x = ow' -> l_depth x = Z.of_nat d' ->
  linkf (set_lock o l x) l wk ow' d' wt wo.
Proof.
  intros K Hn Ho Hd. destruct K.
  assert (G : get_lock (set_lock o l x) l = x) by (apply get_lock_set_lock; auto).
  assert (E : lnotif (set_lock o l x) l = lnotif o l) by (unfold lnotif; rewrite G; auto).
  constructor; rewrite ?E, ?G; auto.
  cbn. rewrite length_list_upd. auto.
Qed.

(** [Notification.__subscribe__] with the fresh wake-up that [__subscription__] has just allocated *)
Definition sec_enter_wait (o : objs) (l : nat) (a : aid) : objs :=
  plain_subscribe (o <| sigs := sigs o ++ [SKWake] |>) (lnotif o l) a (length (sigs o)).

Lemma linkf_subscribe o l wk ow d wt wo a :
  linkf o l wk ow d wt wo -> ~ In a wt -> ~ In a wo ->
  is_scheduled o (length (sigs o)) = false ->
  linkf (sec_enter_wait o l a) l (LP.upd wk a (length (sigs o))) ow d (wt ++ [a]) wo.
Proof.
  intros K Nt No Fr. destruct K. set (w := length (sigs o)) in *. set (n := lnotif o l) in *.
  assert (E : lnotif (sec_enter_wait o l a) l = n) by reflexivity.
  assert (N : get_notif (sec_enter_wait o l a) n
              = (get_notif o n) <| Machine.waiting := Machine.waiting (get_notif o n) ++ [(a, w)] |>).
  { unfold sec_enter_wait, plain_subscribe. fold n. fold w. apply get_notif_set_notif. exact k_notif0. }
  assert (Hm : map (fun b : aid => (b, LP.upd wk a w b)) wt = map (fun b : aid => (b, wk b)) wt).
  { apply map_ext_in. intros b Hb. rewrite LPP.upd_other; auto. intros ->. auto. }
  constructor; rewrite ?E, ?N; auto.
  - unfold sec_enter_wait, plain_subscribe, set_notif. cbn. rewrite length_list_upd. exact k_notif0.
  - cbn. rewrite k_waiting0, map_app, Hm. cbn. rewrite LPP.upd_same. reflexivity.
  - intros b Hb. rewrite LPP.upd_other by (intros ->; auto). apply k_woken0. exact Hb.
  - intros b Hb. apply in_app_or in Hb as [Hb|[<-|[]]].
    + rewrite LPP.upd_other by (intros ->; auto). apply k_queued0. exact Hb.
    + rewrite LPP.upd_same. exact Fr.
  - intros b Hb. unfold sec_enter_wait, plain_subscribe, set_notif. cbn. rewrite app_length. cbn. fold w.
    destruct (Nat.eq_dec b a) as [->|Nb].
    + rewrite LPP.upd_same. lia.
    + rewrite LPP.upd_other by auto. enough (wk b < w) by lia. apply k_alloc0.
      rewrite app_assoc in Hb. apply in_app_or in Hb as [Hb|[<-|[]]]; [exact Hb | congruence].
  - rewrite map_app. cbn. rewrite LPP.upd_same.
    rewrite (map_ext_in _ wk wt).
    2:{ intros b Hb. rewrite LPP.upd_other; auto. intros ->. auto. }
    apply LPP.NoDup_snoc; auto. intros Hw. apply in_map_iff in Hw as (b & Eb & Hb).
    assert (wk b < w) by (apply k_alloc0; apply in_or_app; auto). lia.
Qed.

(** [Notification.__unsubscribe__]: revoke the wake-up if it is scheduled, else leave the waiting list *)
Lemma remove_pair_map (wk : aid -> sid) a wt :
  remove_pair a (wk a) (map (fun b => (b, wk b)) wt) = map (fun b => (b, wk b)) (LP.rem1 a wt).
Proof.
  induction wt as [|b r IH]; cbn; auto. destruct (Nat.eqb_spec b a) as [->|N].
  - rewrite !Nat.eqb_refl. reflexivity.
  - rewrite (proj2 (Nat.eqb_neq a b)) by auto. cbn. f_equal. exact IH.
Qed.

Lemma NoDup_map_rem1 (f : aid -> nat) a l : NoDup (map f l) -> NoDup (map f (LP.rem1 a l)).
Proof.
  induction l as [|b r IH]; cbn; auto. intros H. apply NoDup_cons_iff in H as [H1 H2].
  destruct (Nat.eqb_spec b a); auto. cbn. constructor; auto.
  intros Hb. apply H1. apply in_map_iff in Hb as (c & Ec & Hc). apply in_map_iff. exists c. split; auto.
  eapply LPP.In_rem1; eauto.
Qed.

Lemma link_unsubscribe o l wk s a :
  link o l wk s -> In a (LP.woken s ++ LP.waiting s) ->
  link (app_ops o (plain_unsubscribe o (lnotif o l) a (wk a))) l wk (LP.unsubscribe a s).
Proof.
  intros K Ha. unfold link in *. destruct K. unfold plain_unsubscribe, LP.unsubscribe.
  destruct (LP.mem a (LP.woken s)) eqn:M.
  - apply LPP.mem_In in M. rewrite (k_woken0 a M). cbn.
    constructor; auto.
    + intros b Hb. apply k_woken0. eapply LPP.In_rem1; eauto.
    + intros b Hb. apply k_alloc0. apply in_app_or in Hb as [Hb|Hb]; apply in_or_app; auto.
      left. eapply LPP.In_rem1; eauto.
  - apply LPP.mem_false in M. apply in_app_or in Ha as [Ha|Ha]; [contradiction|].
    rewrite (k_queued0 a Ha). set (n := lnotif o l) in *.
    match goal with |- linkf ?o2 _ _ _ _ _ _ => set (o' := o2) end.
    assert (E : lnotif o' l = n) by reflexivity.
    assert (N : get_notif o' n = (get_notif o n) <| Machine.waiting := remove_pair a (wk a) (Machine.waiting (get_notif o n)) |>).
    { unfold o', app_ops. cbn [fst snd]. apply (get_notif_set_notif o n). exact k_notif0. }
    cbn. constructor; rewrite ?E, ?N; auto.
    + unfold o', app_ops, set_notif. cbn. rewrite length_list_upd. exact k_notif0.
    + cbn. rewrite k_waiting0. apply remove_pair_map.
    + intros b Hb. apply k_queued0. eapply LPP.In_rem1; eauto.
    + intros b Hb. apply k_alloc0. apply in_app_or in Hb as [Hb|Hb]; apply in_or_app; auto.
      right. eapply LPP.In_rem1; eauto.
    + apply NoDup_map_rem1. exact k_inj0.
Qed.

(** [Lock.__release__] through [Notification.__awake_next__] *)
Lemma lock_release_empty o l :
  Machine.waiting (get_notif o (lnotif o l)) = [] ->
  lock_release o l = (set_lock o l ((get_lock o l) <| l_owner := None |>), []).
Proof. intros H. unfold lock_release, awake_next, lnotif in *. cbv zeta. rewrite H. reflexivity. Qed.

Lemma lock_release_cons o l b w r :
  Machine.waiting (get_notif o (lnotif o l)) = (b, w) :: r ->
  lock_release o l =
  (set_lock (set_notif o (lnotif o l) ((get_notif o (lnotif o l)) <| Machine.waiting := r |>)) l
            ((get_lock o l) <| l_owner := Some b |>), [KNow b (Some w)]).
Proof. intros H. unfold lock_release, awake_next, lnotif in *. cbv zeta. rewrite H. reflexivity. Qed.

Lemma link_release o l wk s :
  link o l wk s -> link (app_ops o (lock_release o l)) l wk (LP.release s).
Proof.
  intros K. unfold link in *. pose proof K as K0. destruct K. unfold LP.release.
  destruct (LP.waiting s) as [|b r] eqn:Ew; cbn [map] in k_waiting0.
  - rewrite (lock_release_empty _ _ k_waiting0). cbn.
    apply (linkf_set_lock o l wk _ _ _ _ _ None (LP.depth s) K0); auto.
  - rewrite (lock_release_cons _ _ _ _ _ k_waiting0). set (n := lnotif o l) in *.
    match goal with |- linkf ?o2 _ _ _ _ _ _ => set (o' := o2) end.
    assert (G : get_lock o' l = (get_lock o l) <| l_owner := Some b |>).
    { unfold o', app_ops. cbn [fst snd]. apply (get_lock_set_lock (set_notif o n _)). exact k_lock0. }
    assert (E : lnotif o' l = n) by (unfold lnotif; rewrite G; reflexivity).
    assert (N : get_notif o' n = (get_notif o n) <| Machine.waiting := map (fun a => (a, wk a)) r |>).
    { unfold o', app_ops. cbn [fst snd]. apply (get_notif_set_notif o n). exact k_notif0. }
    assert (S : forall w, is_scheduled o' w = Nat.eqb w (wk b) || is_scheduled o w) by reflexivity.
    cbn in k_inj0. apply NoDup_cons_iff in k_inj0 as [I1 I2].
    cbn. constructor; rewrite ?E, ?N, ?G; auto.
    + unfold o', app_ops, set_lock. cbn. rewrite length_list_upd. exact k_lock0.
    + unfold o', app_ops, set_lock, set_notif. cbn. rewrite length_list_upd. exact k_notif0.
    + intros c Hc. rewrite S. apply in_app_or in Hc as [Hc|[<-|[]]].
      * rewrite (k_woken0 c Hc). apply orb_true_r.
      * rewrite Nat.eqb_refl. reflexivity.
    + intros c Hc. rewrite S. rewrite (k_queued0 c) by (now right).
      rewrite (proj2 (Nat.eqb_neq (wk c) (wk b))); auto.
      intros Ec. apply I1. rewrite <- Ec. apply in_map. exact Hc.
    + intros c Hc. apply k_alloc0. rewrite <- app_assoc in Hc. exact Hc.
Qed.

(** * 4. the atomic sections of the lock code as functions on the object state, and one simulation
      lemma per section.  Section 5 proves that these functions are what [exec] computes when it runs the
      programs of Lib.v. *)

Definition bump_depth (o : objs) (l : nat) : objs :=
  let x := get_lock o l in set_lock o l (x <| l_depth := (l_depth x + 1)%Z |>).
Definition drop_depth (o : objs) (l : nat) : objs :=
  let x := get_lock o l in set_lock o l (x <| l_depth := (l_depth x - 1)%Z |>).
Definition take_free (o : objs) (l : nat) (a : aid) : objs :=
  set_lock o l ((get_lock o l) <| l_owner := Some a |>).

Lemma linkf_bump o l wk ow d wt wo :
  linkf o l wk ow d wt wo -> linkf (bump_depth o l) l wk ow (S d) wt wo.
Proof.
  intros K. unfold bump_depth. apply (linkf_set_lock o l wk ow d wt wo _ ow (S d) K); cbn; auto.
  - apply K.
  - rewrite (k_depth _ _ _ _ _ _ _ K). lia.
Qed.
Lemma linkf_drop o l wk ow d wt wo :
  linkf o l wk ow (S d) wt wo -> linkf (drop_depth o l) l wk ow d wt wo.
Proof.
  intros K. unfold drop_depth. apply (linkf_set_lock o l wk ow (S d) wt wo _ ow d K); cbn; auto.
  - apply K.
  - rewrite (k_depth _ _ _ _ _ _ _ K). lia.
Qed.
Lemma linkf_take o l wk ow d wt wo a :
  linkf o l wk ow d wt wo -> linkf (take_free o l a) l wk (Some a) d wt wo.
Proof.
  intros K. unfold take_free. apply (linkf_set_lock o l wk ow d wt wo _ (Some a) d K); cbn; auto.
  apply K.
Qed.

(** ** Request: [Lock.__aenter__] up to its first suspension or its return.
    free lock: owner := me, depth += 1;  owner re-enters: depth += 1;
    held by somebody else: a fresh wake-up is allocated and subscribed ([Notification.__subscription__] up
    to its [yield]), then the activity hibernates. *)
Definition sec_enter (o : objs) (l : nat) (a : aid) : objs :=
  match l_owner (get_lock o l) with
  | None => bump_depth (take_free o l a) l
  | Some b => if Nat.eqb a b then bump_depth o l else sec_enter_wait o l a
  end.
(** the ghost [wk] after the section: a request that has to wait records its fresh wake-up *)
Definition wk_enter (o : objs) (l : nat) (a : aid) (wk : aid -> sid) : aid -> sid :=
  match l_owner (get_lock o l) with
  | None => wk
  | Some b => if Nat.eqb a b then wk else LP.upd wk a (length (sigs o))
  end.

(** enabled-conditions: the requesting activity is running, i.e. not parked in this lock's queue
    ([ph s a <> Waiting]: the environment discipline of LockProto), and the wake-up that
    [__subscription__] allocates is fresh (never scheduled). *)
Theorem sim_request o l wk s a :
  link o l wk s -> LPP.inv s -> LP.ph s a <> LP.Waiting ->
  is_scheduled o (length (sigs o)) = false ->
  exists s', LP.step s (LP.Request a) = Some s' /\ link (sec_enter o l a) l (wk_enter o l a wk) s'.
Proof.
  intros K I Hw Fr. unfold link in *. unfold sec_enter, wk_enter. rewrite (k_owner _ _ _ _ _ _ _ K).
  pose proof (LPP.iC _ I) as C. unfold LPP.inv_owner in C. cbn [LP.step].
  destruct (LP.owner s) as [b|] eqn:O.
  - destruct C as [C1 C2]. destruct (Nat.eqb_spec a b) as [<-|N].
    + destruct (LP.ph s a) as [| |n] eqn:P; [contradiction|congruence|].
      rewrite Nat.eqb_refl. eexists. split; [reflexivity|]. cbn. apply linkf_bump. exact K.
    + destruct (LP.ph s a) as [| |n] eqn:P; [|congruence|exfalso; apply N; eapply C1; eauto].
      rewrite (proj2 (Nat.eqb_neq b a)) by auto. eexists. split; [reflexivity|]. cbn.
      assert (Na : ~ In a (LP.pendq s)) by (rewrite <- (LPP.iA _ I); congruence).
      unfold LP.pendq in Na. rewrite in_app_iff in Na.
      apply linkf_subscribe; auto.
  - destruct C as (C1 & C2 & C3 & C4).
    destruct (LP.ph s a) as [| |n] eqn:P; [|congruence|exfalso; eapply C4; eauto].
    eexists. split; [reflexivity|]. cbn. apply linkf_bump. eapply linkf_take. exact K.
Qed.

(** ** DeliverWake: the designated waiter is resumed by its own wake-up: the [finally] of
    [__subscription__] ([__unsubscribe__]: the wake-up is scheduled, so it is revoked), then [depth += 1] *)
Definition sec_wake (o : objs) (l : nat) (a : aid) (w : sid) : objs :=
  bump_depth (app_ops o (plain_unsubscribe o (lnotif o l) a w)) l.

Lemma pend_of_waiting s a : LPP.inv s -> LP.ph s a = LP.Waiting -> In a (LP.woken s ++ LP.waiting s).
Proof. intros I P. apply (LPP.iA _ I) in P. exact P. Qed.

(** enabled-condition: the wake-up of [a] is in flight ([a] is the designated owner) *)
Theorem sim_wake o l wk s a :
  link o l wk s -> LPP.inv s -> LP.ph s a = LP.Waiting -> In a (LP.woken s) ->
  exists s', LP.step s (LP.DeliverWake a) = Some s' /\ link (sec_wake o l a (wk a)) l wk s'.
Proof.
  intros K I P Hw. cbn [LP.step]. rewrite P. rewrite (proj2 (LPP.mem_In _ _) Hw).
  eexists. split; [reflexivity|]. unfold link, sec_wake. cbn. apply linkf_bump.
  apply (link_unsubscribe o l wk s a K). apply in_or_app. auto.
Qed.

(** ** DeliverForeign: anything else is thrown into the waiter: [__unsubscribe__] (revoke the wake-up if
    it is scheduled, else leave the waiting list), then the handler of [__aenter__]:
    [if self._owner == current_activity: self.__release__()] *)
Definition sec_foreign (o : objs) (l : nat) (a : aid) (w : sid) : objs :=
  let o1 := app_ops o (plain_unsubscribe o (lnotif o l) a w) in
  if owner_is o1 l a then app_ops o1 (lock_release o1 l) else o1.

Lemma owner_is_link o l wk s a : link o l wk s -> owner_is o l a = LP.is_owner s a.
Proof.
  intros K. unfold owner_is, LP.is_owner. rewrite (k_owner _ _ _ _ _ _ _ K).
  destruct (LP.owner s); auto. apply Nat.eqb_sym.
Qed.

Theorem sim_foreign o l wk s a :
  link o l wk s -> LPP.inv s -> LP.ph s a = LP.Waiting ->
  exists s', LP.step s (LP.DeliverForeign a) = Some s' /\ link (sec_foreign o l a (wk a)) l wk s'.
Proof.
  intros K I P. cbn [LP.step]. rewrite P. eexists. split; [reflexivity|].
  pose proof (link_unsubscribe o l wk s a K (pend_of_waiting s a I P)) as K1.
  unfold sec_foreign. cbv zeta. rewrite (owner_is_link _ _ _ _ a K1).
  destruct (LP.is_owner (LP.unsubscribe a s) a).
  - apply link_release in K1. exact K1.
  - exact K1.
Qed.

(** ** Exit: [Lock.__aexit__]: depth -= 1, release at zero.  The debugging assertion in front of it is
    [exit_guard]; when it fails nothing happens to the objects and AssertionError is raised (finding D14):
    see [lock_exit_runs] in section 5. *)
Definition sec_exit (o : objs) (l : nat) : objs :=
  let o1 := drop_depth o l in
  if (l_depth (get_lock o l) - 1 =? 0)%Z then app_ops o1 (lock_release o1 l) else o1.

(** [assert exc_type is GeneratorExit or self._owner == loop.activity]; [cur] is the activity the LOOP is
    running, which differs from the activity that executes [__aexit__] when the latter is being closed by
    [cur] ([coroutine.close()] runs the victim's [finally] blocks inside the closer's activation) *)
Definition exit_guard (o : objs) (l : nat) (exc : option exn) (cur : aid) : bool :=
  match exc with Some EGenExit => true | _ => owner_is o l cur end.

(** enabled-condition: [a] is inside the block.  By [mutex] it is then the owner, so the guard holds
    whenever the exiting activity is the one the loop runs ([exit_guard_owner]). *)
Theorem sim_exit o l wk s a n :
  link o l wk s -> LPP.inv s -> LP.ph s a = LP.Inside (S n) ->
  exists s', LP.step s (LP.Exit a) = Some s' /\ link (sec_exit o l) l wk s'.
Proof.
  intros K I P. destruct (LPP.inside_owner _ I _ _ P) as (O & D & _ & W).
  cbn [LP.step]. rewrite P. eexists. split; [reflexivity|].
  unfold link in K. rewrite D in K. unfold sec_exit. cbv zeta.
  rewrite (k_depth _ _ _ _ _ _ _ K). cbn [LP.depth]. rewrite D. cbn [pred].
  set (s1 := LP.mk _ _ _ _ _ _ _ _).
  assert (K1 : link (drop_depth o l) l wk s1) by (unfold link; cbn; apply linkf_drop; exact K).
  replace (Z.of_nat (S n) - 1 =? 0)%Z with (Nat.eqb n 0).
  2:{ destruct n; [reflexivity|]. symmetry. apply Z.eqb_neq. lia. }
  destruct (Nat.eqb n 0).
  - apply link_release. exact K1.
  - exact K1.
Qed.

Lemma exit_guard_owner o l wk s a exc :
  link o l wk s -> LP.owner s = Some a -> exit_guard o l exc a = true.
Proof.
  intros K O. unfold exit_guard. rewrite (owner_is_link _ _ _ _ a K). unfold LP.is_owner. rewrite O.
  rewrite Nat.eqb_refl. destruct exc as [[]|]; reflexivity.
Qed.

(** the guard fails exactly when the exception is not GeneratorExit and the loop runs somebody else: the
    holder is being closed by another activity and an inner scope/handler has turned the GeneratorExit into
    another exception (D14).  The objects are then untouched ([lock_exit_runs]): the protocol makes no
    step, the lock stays with a holder whose block is gone. *)
Lemma exit_guard_fails_iff o l exc cur :
  exit_guard o l exc cur = false <-> exc <> Some EGenExit /\ l_owner (get_lock o l) <> Some cur.
Proof.
  unfold exit_guard, owner_is. split.
  - intros H. split.
    + intros ->. discriminate.
    + intros E. rewrite E, Nat.eqb_refl in H. destruct exc as [[]|]; discriminate.
  - intros [H1 H2].
    assert (G : match l_owner (get_lock o l) with Some b => Nat.eqb cur b | None => false end = false).
    { destruct (l_owner (get_lock o l)) as [b|]; auto. apply Nat.eqb_neq. intros ->. auto. }
    destruct exc as [[]|]; auto. congruence.
Qed.

(** * 5. the sections are what the machine does: symbolic execution of the programs of Lib.v with [exec]
      for an ARBITRARY machine state, running activity, stack and continuation *)

(** the machine state after a primitive: new object state, requests logged *)
Definition with_ob (m : mstate) (o' : objs) (ops : list kop) : mstate :=
  m <| ob := o' |> <| klog := klog m ++ ops |>.

Lemma with_ob_with_ob m o1 ops1 o2 ops2 :
  with_ob (with_ob m o1 ops1) o2 ops2 = with_ob m o2 (ops1 ++ ops2).
Proof. unfold with_ob. cbn. rewrite app_assoc. reflexivity. Qed.

Lemma ob_with_ob m o' ops : ob (with_ob m o' ops) = o'.
Proof. reflexivity. Qed.

Lemma pair_okk (P : objs * list kop) : (let '(o', ks) := P in okk o' ks) = okk (fst P) (snd P).
Proof. destruct P; reflexivity. Qed.

Lemma step1_prim cur m f k o' ops v c outer :
  f (ob m) cur = mkpres o' ops [] (inl v) ->
  step1 cur m (MRun (Prim f k)) c outer
  = SCont (with_ob m (app_ops (ob m) (o', ops)) ops) (MRun (k v)) c outer.
Proof. intros H. cbn. rewrite H. reflexivity. Qed.

Lemma step1_prim_err cur m f k e c outer :
  f (ob m) cur = err (ob m) e ->
  step1 cur m (MRun (Prim f k)) c outer
  = SCont (with_ob m (app_ops (ob m) (ob m, [])) []) (MThrow e) c outer.
Proof. intros H. cbn. rewrite H. reflexivity. Qed.

Lemma set_kern_same o : set_kern o (kern o) = o.
Proof. destruct o; reflexivity. Qed.
Lemma with_ob_same m : with_ob m (app_ops (ob m) (ob m, [])) [] = m.
Proof.
  unfold with_ob, app_ops. cbn [fst snd kapply_all fold_left]. rewrite set_kern_same, app_nil_r.
  destruct m; reflexivity.
Qed.

Ltac pstep tac := erewrite exec_step; [| apply step1_prim; tac ].

(** ** [Lock.__aexit__] *)
Definition exit_ops (o : objs) (l : nat) : list kop :=
  if (l_depth (get_lock o l) - 1 =? 0)%Z then snd (lock_release (drop_depth o l) l) else [].

Theorem lock_exit_runs k cur m l exc c outer :
  exec (2 + k) cur m (MRun (lock_exit l exc)) c outer
  = if exit_guard (ob m) l exc cur
    then exec k cur (with_ob m (sec_exit (ob m) l) (exit_ops (ob m) l)) (MRet VU) c outer
    else exec (1 + k) cur m (MThrow EAssertion) c outer.
Proof.
  cbn [Nat.add]. unfold lock_exit, Do. destruct (exit_guard (ob m) l exc cur) eqn:G.
  - erewrite exec_step.
    2:{ apply (step1_prim cur m _ _
                 (if (l_depth (get_lock (ob m) l) - 1 =? 0)%Z
                  then fst (lock_release (drop_depth (ob m) l) l) else drop_depth (ob m) l)
                 (exit_ops (ob m) l) VU).
        unfold exit_guard in G. rewrite G. cbn [negb]. fold (drop_depth (ob m) l).
        unfold exit_ops. destruct (l_depth (get_lock (ob m) l) - 1 =? 0)%Z; [apply pair_okk|reflexivity]. }
    mstep. f_equal. unfold sec_exit, exit_ops. f_equal.
    destruct (l_depth (get_lock (ob m) l) - 1 =? 0)%Z.
    + destruct (lock_release (drop_depth (ob m) l) l); reflexivity.
    + unfold app_ops, drop_depth. reflexivity.
  - erewrite exec_step.
    2:{ apply step1_prim_err. unfold exit_guard in G. rewrite G. reflexivity. }
    rewrite with_ob_same. reflexivity.
Qed.

(** ** [Lock.__aenter__] on a free lock and on a lock the running activity owns: runs to its end within
    the activation, the object state afterwards is [sec_enter] *)
Theorem lock_enter_free_runs k cur m l c outer :
  l_owner (get_lock (ob m) l) = None ->
  exec (7 + k) cur m (MRun (lock_enter l)) c outer
  = exec k cur (with_ob m (sec_enter (ob m) l cur) []) (MRet VU) c outer.
Proof.
  intros H. destruct c as [b st]. cbn [Nat.add]. unfold lock_enter, sec_enter. rewrite H.
  erewrite exec_step; [| cbn; rewrite H; reflexivity ].
  mstep.
  pstep ltac:(cbn; reflexivity). mstep. mstep.
  pstep ltac:(cbn; reflexivity). mstep.
  f_equal. rewrite with_ob_with_ob. unfold with_ob. cbn. reflexivity.
Qed.

Theorem lock_enter_again_runs k cur m l c outer :
  l_owner (get_lock (ob m) l) = Some cur ->
  exec (6 + k) cur m (MRun (lock_enter l)) c outer
  = exec k cur (with_ob m (sec_enter (ob m) l cur) []) (MRet VU) c outer.
Proof.
  intros H. destruct c as [b st]. cbn [Nat.add]. unfold lock_enter, sec_enter. rewrite H, Nat.eqb_refl.
  erewrite exec_step; [| cbn; rewrite H, Nat.eqb_refl; reflexivity ].
  mstep. mstep. mstep.
  pstep ltac:(cbn; reflexivity). mstep.
  f_equal.
Qed.

(** ** [Lock.__aenter__] on a lock held by somebody else: allocates the wake-up [w], subscribes, and
    hibernates; what is left on the stack of the sleeping activity are the handlers of
    [__subscription__] and of [__aenter__], which carry [w] *)
Definition lock_wait_frames (l : nat) (n : nid) (a : aid) (w : sid) : list frame :=
  [ FCatch (fun e => if is_sig e w then Ret VU else Raise e);
    FCatch (fun e => unsubscribe n a w ;;; Raise e);
    FBind (fun v => unsubscribe n a w ;;; Ret v);
    FCatch (fun e => Do (fun o _ => if owner_is o l a
                                    then let '(o', ks) := lock_release o l in okk o' ks
                                    else oku o) ;;; Raise e);
    FBind (fun _ => Upd (fun o => let x := get_lock o l in
                                  set_lock o l (x <| l_depth := (l_depth x + 1)%Z |>))) ].

Theorem lock_enter_wait_sleeps k a m l b st :
  l_owner (get_lock (ob m) l) = Some b -> a <> b ->
  nk (get_notif (ob m) (lnotif (ob m) l)) = NPlain ->
  exec (17 + k) a m (MRun (lock_enter l)) {| c_aid := a; c_stack := st |} []
  = set_act (with_ob m (sec_enter (ob m) l a) [])
            a (ASusp (lock_wait_frames l (lnotif (ob m) l) a (length (sigs (ob m))) ++ st)).
Proof.
  intros H N P. apply Nat.eqb_neq in N. cbn [Nat.add]. unfold lock_enter, sec_enter. rewrite H, N.
  unfold lnotif in *.
  erewrite exec_step; [| cbn; rewrite H, N; reflexivity ].
  mstep. mstep.
  erewrite exec_step; [| cbn; rewrite P; reflexivity ].
  unfold notif_await, subscription.
  mstep.
  pstep ltac:(cbn; reflexivity).
  mstep. mstep. mstep. mstep.
  erewrite exec_step.
  2:{ apply step1_prim. cbn. unfold subscribe_pres. cbn. pose proof P as P'. unfold get_notif in P'. rewrite P'.
      reflexivity. }
  mstep. mstep. unfold Finally. mstep. mstep. mstep. mdone.
  f_equal. rewrite !with_ob_with_ob. unfold with_ob. cbn. reflexivity.
Qed.

Lemma unsubscribe_plain_pres o n a w :
  nk (get_notif o n) = NPlain ->
  (let '(o', ks) := unsubscribe_pair o n a w in okk o' ks)
  = okk (fst (plain_unsubscribe o n a w)) (snd (plain_unsubscribe o n a w)).
Proof. intros P. unfold unsubscribe_pair. rewrite P. apply pair_okk. Qed.

(** ** the sleeping waiter is resumed by its own wake-up: the program continues after [__aenter__], the
    object state is [sec_wake] *)
Theorem lock_wait_woken k cur m l n a w c st outer :
  lnotif (ob m) l = n -> nk (get_notif (ob m) n) = NPlain ->
  exec (13 + k) cur m (MThrow (ESig w)) {| c_aid := c; c_stack := lock_wait_frames l n a w ++ st |} outer
  = exec k cur (with_ob m (sec_wake (ob m) l a w) (snd (plain_unsubscribe (ob m) n a w)))
         (MRet VU) {| c_aid := c; c_stack := st |} outer.
Proof.
  intros En P. unfold lock_wait_frames, sec_wake. rewrite En. cbn [Nat.add app].
  mstep. cbn [is_sig]. rewrite Nat.eqb_refl.
  mstep. mstep. mstep. mstep.
  unfold unsubscribe, Do.
  erewrite exec_step; [| apply step1_prim; apply unsubscribe_plain_pres; exact P ].
  mstep. mstep. mstep. mstep. mstep.
  pstep ltac:(cbn; reflexivity). mstep.
  f_equal. rewrite with_ob_with_ob, app_nil_r. unfold with_ob. f_equal.
Qed.

(** ** anything else is thrown into the sleeping waiter (a foreign interrupt, CancelTask, GeneratorExit of a
    close): the exception continues to propagate above [__aenter__], the object state is [sec_foreign] *)
Definition foreign_ops (o : objs) (l : nat) (n : nid) (a : aid) (w : sid) : list kop :=
  let o1 := app_ops o (plain_unsubscribe o n a w) in
  snd (plain_unsubscribe o n a w) ++ (if owner_is o1 l a then snd (lock_release o1 l) else []).

Theorem lock_wait_foreign k cur m l n a w e c st outer :
  lnotif (ob m) l = n -> nk (get_notif (ob m) n) = NPlain -> is_sig e w = false ->
  exec (16 + k) cur m (MThrow e) {| c_aid := c; c_stack := lock_wait_frames l n a w ++ st |} outer
  = exec k cur (with_ob m (sec_foreign (ob m) l a w) (foreign_ops (ob m) l n a w))
         (MThrow e) {| c_aid := c; c_stack := st |} outer.
Proof.
  intros En P He. unfold lock_wait_frames, sec_foreign, foreign_ops. rewrite En. cbn [Nat.add app].
  mstep. rewrite He.
  mstep. mstep. mstep.
  unfold unsubscribe, Do.
  erewrite exec_step; [| apply step1_prim; apply unsubscribe_plain_pres; exact P ].
  mstep. mstep. mstep. mstep. mstep. mstep.
  set (o1 := app_ops (ob m) (fst (plain_unsubscribe (ob m) n a w), snd (plain_unsubscribe (ob m) n a w))).
  erewrite exec_step.
  2:{ apply (step1_prim cur _ _ _
               (if owner_is o1 l a then fst (lock_release o1 l) else o1)
               (if owner_is o1 l a then snd (lock_release o1 l) else []) VU).
      rewrite !ob_with_ob. destruct (owner_is o1 l a); [apply pair_okk | reflexivity]. }
  mstep. mstep. mstep. mstep.
  f_equal. rewrite with_ob_with_ob. unfold with_ob.
  assert (E1 : o1 = app_ops (ob m) (plain_unsubscribe (ob m) n a w)).
  { unfold o1. destruct (plain_unsubscribe (ob m) n a w); reflexivity. }
  rewrite <- E1. destruct (owner_is o1 l a).
  - destruct (lock_release o1 l); reflexivity.
  - unfold app_ops at 1. cbn [fst snd kapply_all fold_left]. rewrite set_kern_same. reflexivity.
Qed.

(** * 6. transfer of the protocol invariants to machine object states *)

(** a lock as the machine creates it ([alloc_lock]: scenario set-up and every [Queue()]) is related to the
    protocol's initial state, whatever the ghost [wk] *)
Lemma link_alloc_lock o wk : link (alloc_lock o) (length (locks o)) wk LP.init.
Proof.
  unfold link, alloc_lock, alloc_notif. cbn.
  assert (G : get_lock (o <| notifs := notifs o ++ [{| nk := NPlain; Machine.waiting := []; trig := false |}] |>
                          <| locks := locks o ++ [{| l_owner := None; l_depth := 0; l_notif := length (notifs o) |}] |>)
                       (length (locks o))
              = {| l_owner := None; l_depth := 0; l_notif := length (notifs o) |}).
  { unfold get_lock. cbn. rewrite app_nth2 by lia. rewrite Nat.sub_diag. reflexivity. }
  constructor; unfold lnotif; rewrite ?G; cbn; try (intros ? []); try constructor.
  - rewrite app_length. cbn. lia.
  - rewrite app_length. cbn. lia.
  - unfold get_notif. cbn. rewrite app_nth2 by lia. rewrite Nat.sub_diag. reflexivity.
  - unfold get_notif. cbn. rewrite app_nth2 by lia. rewrite Nat.sub_diag. reflexivity.
Qed.

(** The object states a lock goes through: it is created, then every change is one of the atomic sections
    of section 4, executed under the discipline of the protocol (the ghost phase [LP.ph] records at which
    suspension point of the lock code an activity is: a request is made by an activity that is not parked
    in this lock; the wake-up is delivered to the designated waiter; something else may be thrown into any
    waiter; only an activity inside the block leaves it), or it is a step of other code that satisfies the
    frame condition of [link_frame].  [hist] is the protocol state that is carried along. *)
Inductive linked (l : nat) : objs -> (aid -> sid) -> LP.st -> Prop :=
| lk_init o wk : link o l wk LP.init -> linked l o wk LP.init
| lk_request o wk s a s' :
    linked l o wk s -> LP.ph s a <> LP.Waiting -> is_scheduled o (length (sigs o)) = false ->
    LP.step s (LP.Request a) = Some s' -> linked l (sec_enter o l a) (wk_enter o l a wk) s'
| lk_wake o wk s a s' :
    linked l o wk s -> LP.ph s a = LP.Waiting -> In a (LP.woken s) ->
    LP.step s (LP.DeliverWake a) = Some s' -> linked l (sec_wake o l a (wk a)) wk s'
| lk_foreign o wk s a s' :
    linked l o wk s -> LP.ph s a = LP.Waiting ->
    LP.step s (LP.DeliverForeign a) = Some s' -> linked l (sec_foreign o l a (wk a)) wk s'
| lk_exit o wk s a n s' :
    linked l o wk s -> LP.ph s a = LP.Inside (S n) ->
    LP.step s (LP.Exit a) = Some s' -> linked l (sec_exit o l) wk s'
| lk_other o wk s o' :
    linked l o wk s ->
    length (locks o') = length (locks o) -> length (notifs o) <= length (notifs o') ->
    length (sigs o) <= length (sigs o') ->
    get_lock o' l = get_lock o l ->
    get_notif o' (lnotif o l) = get_notif o (lnotif o l) ->
    (forall a, In a (LP.woken s ++ LP.waiting s) -> is_scheduled o' (wk a) = is_scheduled o (wk a)) ->
    linked l o' wk s.

(** main theorem: along every such history the object state stays related to a REACHABLE protocol state.
    (The protocol step in [lk_request] .. [lk_exit] is not an extra assumption: by [sim_request] ..
    [sim_exit] it exists and is the one given; see [linked_progress].) *)
Theorem linked_sound l o wk s : linked l o wk s -> link o l wk s /\ LP.reachable s.
Proof.
  induction 1 as [o wk K | o wk s a s' _ [K R] P F St | o wk s a s' _ [K R] P W St
                 | o wk s a s' _ [K R] P St | o wk s a n s' _ [K R] P St
                 | o wk s o' _ [K R] H1 H2 H3 H4 H5 H6].
  - split; [exact K | constructor].
  - split; [| econstructor; eauto].
    destruct (sim_request o l wk s a K (LPP.reachable_inv _ R) P F) as (s2 & E & K2). congruence.
  - split; [| econstructor; eauto].
    destruct (sim_wake o l wk s a K (LPP.reachable_inv _ R) P W) as (s2 & E & K2). congruence.
  - split; [| econstructor; eauto].
    destruct (sim_foreign o l wk s a K (LPP.reachable_inv _ R) P) as (s2 & E & K2). congruence.
  - split; [| econstructor; eauto].
    destruct (sim_exit o l wk s a n K (LPP.reachable_inv _ R) P) as (s2 & E & K2). congruence.
  - split; [| exact R]. eapply link_frame; eauto.
Qed.

(** the protocol step demanded by the constructors always exists (the enabled-conditions of the sections
    are exactly the guards of [LP.step] on reachable states) *)
Theorem linked_progress l o wk s a :
  linked l o wk s ->
  (LP.ph s a <> LP.Waiting -> LP.step s (LP.Request a) <> None) /\
  (LP.ph s a = LP.Waiting -> In a (LP.woken s) -> LP.step s (LP.DeliverWake a) <> None) /\
  (LP.ph s a = LP.Waiting -> LP.step s (LP.DeliverForeign a) <> None) /\
  (forall n, LP.ph s a = LP.Inside (S n) -> LP.step s (LP.Exit a) <> None).
Proof.
  intros L. destruct (linked_sound _ _ _ _ L) as [K R]. pose proof (LPP.enabled_by_phase s a R) as E.
  repeat split.
  - intros P. destruct (LP.ph s a); [exact E|congruence|apply E].
  - intros P W. cbn. rewrite P, (proj2 (LPP.mem_In _ _) W). discriminate.
  - intros P. rewrite P in E. exact E.
  - intros n P. rewrite P in E. apply E.
Qed.

Lemma NoDup_app_r {A} (l1 l2 : list A) : NoDup (l1 ++ l2) -> NoDup l2.
Proof. induction l1 as [|x r IH]; cbn; auto. intros H. apply NoDup_cons_iff in H as [_ H]. auto. Qed.

(** ** the C09 statements on machine object states *)
Section Transfer.
  Variables (o : objs) (l : nat) (wk : aid -> sid) (s : LP.st).
  Hypothesis K : link o l wk s.
  Hypothesis R : LP.reachable s.

  (** free_iff_idle: the lock record says "free" exactly when no activity holds the lock, is designated
      for it or waits for it *)
  Theorem machine_free_iff_idle :
    l_owner (get_lock o l) = None <-> forall a, LP.ph s a = LP.Idle.
  Proof. rewrite (k_owner _ _ _ _ _ _ _ K). apply LPP.free_iff_idle. exact R. Qed.

  (** [Lock.available] as the machine computes it is the protocol's, hence its specification *)
  Lemma machine_available_eq a : lock_available o l a = LP.available s a.
  Proof.
    unfold lock_available, LP.available. rewrite (k_owner _ _ _ _ _ _ _ K).
    destruct (LP.owner s); auto. apply Nat.eqb_sym.
  Qed.

  Theorem machine_available_spec a : LP.ph s a <> LP.Waiting ->
    (lock_available o l a = true <-> (forall b, LP.ph s b = LP.Idle) \/ LPP.inside s a).
  Proof. rewrite machine_available_eq. apply LPP.available_spec. exact R. Qed.

  (** mutex + re-entrancy: whoever is inside is the recorded owner, alone, and the recorded depth is its
      nesting depth *)
  Theorem machine_mutex a b n m :
    LP.ph s a = LP.Inside n -> LP.ph s b = LP.Inside m ->
    a = b /\ l_owner (get_lock o l) = Some a /\ l_depth (get_lock o l) = Z.of_nat n /\ 1 <= n.
  Proof.
    intros Ha Hb. destruct (LPP.mutex s R a b n m Ha Hb) as [E O].
    destruct (LPP.reentrant_depth s R a n Ha) as (_ & D & L).
    rewrite (k_owner _ _ _ _ _ _ _ K), (k_depth _ _ _ _ _ _ _ K), D. auto.
  Qed.

  (** the waiting list of the lock's notification holds exactly the parked, not designated activities,
      each once, each with its own wake-up, none of them scheduled *)
  Theorem machine_waiting_list :
    NoDup (map fst (Machine.waiting (get_notif o (lnotif o l)))) /\
    NoDup (map snd (Machine.waiting (get_notif o (lnotif o l)))) /\
    forall a w, In (a, w) (Machine.waiting (get_notif o (lnotif o l))) ->
                LP.ph s a = LP.Waiting /\ w = wk a /\ is_scheduled o w = false /\
                l_owner (get_lock o l) <> Some a /\ l_owner (get_lock o l) <> None.
  Proof.
    pose proof (LPP.reachable_inv _ R) as I. pose proof (LPP.iB _ I) as B. unfold LP.pendq in B.
    rewrite (k_waiting _ _ _ _ _ _ _ K), map_fst_pairs. repeat split.
    - apply NoDup_app_r in B. exact B.
    - rewrite map_map. cbn. apply (k_inj _ _ _ _ _ _ _ K).
    - apply in_map_iff in H as (b & E & Hb). injection E as <- <-.
      apply (LPP.iA _ I). apply in_or_app. auto.
    - apply in_map_iff in H as (b & E & Hb). injection E as <- <-. reflexivity.
    - apply in_map_iff in H as (b & E & Hb). injection E as <- <-. apply (k_queued _ _ _ _ _ _ _ K). exact Hb.
    - apply in_map_iff in H as (b & E & Hb). injection E as <- <-.
      rewrite (k_owner _ _ _ _ _ _ _ K). intros O.
      pose proof (LPP.iC _ I) as C. unfold LPP.inv_owner in C. rewrite O in C. destruct C as [_ C].
      assert (P : LP.ph s b = LP.Waiting) by (apply (LPP.iA _ I); apply in_or_app; auto).
      rewrite P in C. destruct C as [W _]. rewrite W in B. cbn in B. apply NoDup_cons_iff in B as [B _].
      contradiction.
    - apply in_map_iff in H as (b & E & Hb). injection E as <- <-.
      rewrite (k_owner _ _ _ _ _ _ _ K). intros O.
      pose proof (LPP.iC _ I) as C. unfold LPP.inv_owner in C. rewrite O in C.
      destruct C as (_ & C & _). rewrite C in Hb. destruct Hb.
  Qed.

  (** ownership is never parked: a recorded owner is inside the block, or it is the designated waiter and
      its wake-up is scheduled in the kernel (and not in the waiting list any more) *)
  Theorem machine_owner_can_move a :
    l_owner (get_lock o l) = Some a ->
    (exists n, LP.ph s a = LP.Inside (S n) /\ l_depth (get_lock o l) = Z.of_nat (S n)) \/
    (LP.ph s a = LP.Waiting /\ is_scheduled o (wk a) = true /\ l_depth (get_lock o l) = 0%Z /\
     ~ In a (map fst (Machine.waiting (get_notif o (lnotif o l))))).
  Proof.
    rewrite (k_owner _ _ _ _ _ _ _ K). intros O.
    destruct (LPP.owner_can_move s a R O) as [(n & P & _) | (P & W & _)].
    - left. exists n. split; auto. rewrite (k_depth _ _ _ _ _ _ _ K).
      destruct (LPP.reentrant_depth s R a _ P) as (_ & D & _). now rewrite D.
    - right. pose proof (LPP.reachable_inv _ R) as I.
      destruct (LPP.woken_shape s I a W) as (_ & _ & _ & Z).
      repeat split; auto.
      + apply (k_woken _ _ _ _ _ _ _ K). exact W.
      + rewrite (k_depth _ _ _ _ _ _ _ K), Z. reflexivity.
      + rewrite (k_waiting _ _ _ _ _ _ _ K), map_fst_pairs.
        destruct (LPP.unsubscribe_safe s a R P) as [[_ N]|[_ N]]; [exact N | contradiction].
  Qed.

  (** [Notification.__unsubscribe__] of a parked activity always finds what it looks for: its wake-up is
      scheduled (then it is revoked), or its pair is in the waiting list (then [list.remove] succeeds) *)
  Theorem machine_unsubscribe_safe a : LP.ph s a = LP.Waiting ->
    (is_scheduled o (wk a) = true /\ mem_pair a (wk a) (Machine.waiting (get_notif o (lnotif o l))) = false) \/
    (is_scheduled o (wk a) = false /\ mem_pair a (wk a) (Machine.waiting (get_notif o (lnotif o l))) = true).
  Proof.
    intros P. rewrite (k_waiting _ _ _ _ _ _ _ K).
    assert (M : forall L, mem_pair a (wk a) (map (fun b : aid => (b, wk b)) L) = LP.mem a L).
    { unfold mem_pair, LP.mem. induction L as [|b r IH]; cbn; auto. rewrite IH. f_equal.
      destruct (Nat.eqb_spec a b) as [<-|N]; cbn; auto. apply Nat.eqb_refl. }
    rewrite M. destruct (LPP.unsubscribe_safe s a R P) as [[W N]|[W N]]; [left|right]; split.
    - apply (k_woken _ _ _ _ _ _ _ K). exact W.
    - apply LPP.mem_false. exact N.
    - apply (k_queued _ _ _ _ _ _ _ K). exact W.
    - apply LPP.mem_In. exact W.
  Qed.
End Transfer.

(** the same for every object state of a lock history *)
Corollary linked_free_iff_idle l o wk s :
  linked l o wk s -> (l_owner (get_lock o l) = None <-> forall a, LP.ph s a = LP.Idle).
Proof. intros L. destruct (linked_sound _ _ _ _ L) as [K R]. eapply machine_free_iff_idle; eauto. Qed.

Corollary linked_available_spec l o wk s a :
  linked l o wk s -> LP.ph s a <> LP.Waiting ->
  (lock_available o l a = true <-> (forall b, LP.ph s b = LP.Idle) \/ LPP.inside s a).
Proof. intros L. destruct (linked_sound _ _ _ _ L) as [K R]. eapply machine_available_spec; eauto. Qed.

Corollary linked_mutex l o wk s a b n m :
  linked l o wk s -> LP.ph s a = LP.Inside n -> LP.ph s b = LP.Inside m ->
  a = b /\ l_owner (get_lock o l) = Some a /\ l_depth (get_lock o l) = Z.of_nat n /\ 1 <= n.
Proof. intros L. destruct (linked_sound _ _ _ _ L) as [K R]. eapply machine_mutex; eauto. Qed.

(** ** sections 4 and 5 composed: one statement per atomic section about the MACHINE.
    Running the lock code of Lib.v from a machine state whose object state is related to a protocol state
    [s] (with [LPP.inv s], e.g. [s] reachable) performs a protocol transition: the object state at the end
    of the section is related to [LP.step s label]. *)
Lemma link_set_act m a st l wk s : link (ob m) l wk s -> link (ob (set_act m a st)) l wk s.
Proof. intros K. eapply link_frame; eauto. Qed.

(** an immediate request (free lock, or re-entry) needs no fresh wake-up and leaves [wk] alone *)
Lemma sim_request_immediate o l wk s a :
  link o l wk s -> LPP.inv s -> LP.ph s a <> LP.Waiting ->
  (l_owner (get_lock o l) = None \/ l_owner (get_lock o l) = Some a) ->
  exists s', LP.step s (LP.Request a) = Some s' /\ link (sec_enter o l a) l wk s'.
Proof.
  intros K I P O.
  unfold link in *. unfold sec_enter. pose proof (LPP.iC _ I) as C. unfold LPP.inv_owner in C.
  cbn [LP.step]. rewrite (k_owner _ _ _ _ _ _ _ K) in O |- *.
  destruct O as [O|O]; rewrite O in *.
  - destruct C as (C1 & C2 & C3 & C4).
    destruct (LP.ph s a) as [| |n] eqn:Pc; [|congruence|exfalso; eapply C4; eauto].
    eexists. split; [reflexivity|]. cbn. apply linkf_bump. eapply linkf_take. exact K.
  - destruct C as [C1 C2]. destruct (LP.ph s a) as [| |n] eqn:Pc; [contradiction|congruence|].
    rewrite !Nat.eqb_refl. eexists. split; [reflexivity|]. cbn. apply linkf_bump. exact K.
Qed.

Theorem machine_request_immediate k cur m l c outer wk s :
  link (ob m) l wk s -> LPP.inv s -> LP.ph s cur <> LP.Waiting ->
  (l_owner (get_lock (ob m) l) = None \/ l_owner (get_lock (ob m) l) = Some cur) ->
  exists s' m' j, LP.step s (LP.Request cur) = Some s' /\ link (ob m') l wk s' /\
    exec (j + k) cur m (MRun (lock_enter l)) c outer = exec k cur m' (MRet VU) c outer.
Proof.
  intros K I P O.
  destruct (sim_request_immediate _ _ _ _ cur K I P O) as (s' & St & K').
  exists s', (with_ob m (sec_enter (ob m) l cur) []).
  destruct O as [O|O].
  - exists 7. split; [exact St | split; [exact K' | apply lock_enter_free_runs; exact O]].
  - exists 6. split; [exact St | split; [exact K' | apply lock_enter_again_runs; exact O]].
Qed.

Theorem machine_request_waits k a m l b st wk s :
  link (ob m) l wk s -> LPP.inv s -> LP.ph s a <> LP.Waiting ->
  is_scheduled (ob m) (length (sigs (ob m))) = false ->
  l_owner (get_lock (ob m) l) = Some b -> a <> b ->
  let w := length (sigs (ob m)) in
  let m' := exec (17 + k) a m (MRun (lock_enter l)) {| c_aid := a; c_stack := st |} [] in
  exists s', LP.step s (LP.Request a) = Some s' /\ LP.ph s' a = LP.Waiting /\
             link (ob m') l (LP.upd wk a w) s' /\
             m' = set_act (with_ob m (sec_enter (ob m) l a) []) a
                          (ASusp (lock_wait_frames l (lnotif (ob m) l) a (LP.upd wk a w a) ++ st)).
Proof.
  intros K I P Fr O N w m'.
  destruct (sim_request _ _ _ _ a K I P Fr) as (s' & St & K').
  assert (Ew : wk_enter (ob m) l a wk = LP.upd wk a w).
  { unfold wk_enter. rewrite O. apply Nat.eqb_neq in N. now rewrite N. }
  rewrite Ew in K'.
  assert (Em : m' = set_act (with_ob m (sec_enter (ob m) l a) []) a
                            (ASusp (lock_wait_frames l (lnotif (ob m) l) a w ++ st))).
  { apply lock_enter_wait_sleeps with (b := b); auto. apply K. }
  exists s'. split; [exact St | split; [| split]].
  - cbn [LP.step] in St.
    unfold link in K. rewrite <- (k_owner _ _ _ _ _ _ _ K), O in St.
    destruct (LP.ph s a) eqn:Pa; try discriminate.
    + rewrite (proj2 (Nat.eqb_neq b a)) in St by auto. injection St as <-. cbn. apply LPP.upd_same.
    + rewrite (proj2 (Nat.eqb_neq b a)) in St by auto. discriminate.
  - rewrite Em. apply link_set_act. exact K'.
  - rewrite LPP.upd_same. exact Em.
Qed.

Theorem machine_wake k cur m l a c st outer wk s :
  link (ob m) l wk s -> LPP.inv s -> LP.ph s a = LP.Waiting -> In a (LP.woken s) ->
  exists s' m', LP.step s (LP.DeliverWake a) = Some s' /\ link (ob m') l wk s' /\
    exec (13 + k) cur m (MThrow (ESig (wk a)))
         {| c_aid := c; c_stack := lock_wait_frames l (lnotif (ob m) l) a (wk a) ++ st |} outer
    = exec k cur m' (MRet VU) {| c_aid := c; c_stack := st |} outer.
Proof.
  intros K I P W. destruct (sim_wake _ _ _ _ a K I P W) as (s' & St & K').
  exists s'. eexists. split; [exact St|]. split; [| apply lock_wait_woken; [reflexivity | apply K]].
  exact K'.
Qed.

Theorem machine_foreign k cur m l a e c st outer wk s :
  link (ob m) l wk s -> LPP.inv s -> LP.ph s a = LP.Waiting -> is_sig e (wk a) = false ->
  exists s' m', LP.step s (LP.DeliverForeign a) = Some s' /\ link (ob m') l wk s' /\
    exec (16 + k) cur m (MThrow e)
         {| c_aid := c; c_stack := lock_wait_frames l (lnotif (ob m) l) a (wk a) ++ st |} outer
    = exec k cur m' (MThrow e) {| c_aid := c; c_stack := st |} outer.
Proof.
  intros K I P He. destruct (sim_foreign _ _ _ _ a K I P) as (s' & St & K').
  exists s'. eexists. split; [exact St|]. split; [| apply lock_wait_foreign; [reflexivity | apply K | exact He]].
  exact K'.
Qed.

(** [__aexit__] run by the holder [a] while the loop runs [cur]: if the assertion holds (always when
    [cur = a], and for [GeneratorExit]) the protocol exits; otherwise (D14) AssertionError is raised and
    neither the objects nor the protocol state move: the lock stays with [a], whose block is gone *)
Theorem machine_exit k cur m l exc c outer wk s a n :
  link (ob m) l wk s -> LPP.inv s -> LP.ph s a = LP.Inside (S n) ->
  (exit_guard (ob m) l exc cur = true ->
   exists s' m', LP.step s (LP.Exit a) = Some s' /\ link (ob m') l wk s' /\
     exec (2 + k) cur m (MRun (lock_exit l exc)) c outer = exec k cur m' (MRet VU) c outer) /\
  (exit_guard (ob m) l exc cur = false ->
   cur <> a /\ exc <> Some EGenExit /\
   exec (2 + k) cur m (MRun (lock_exit l exc)) c outer = exec (1 + k) cur m (MThrow EAssertion) c outer) /\
  (cur = a -> exit_guard (ob m) l exc cur = true).
Proof.
  intros K I P. destruct (LPP.inside_owner _ I _ _ P) as (O & _).
  split; [|split].
  - intros G. destruct (sim_exit _ _ _ _ a n K I P) as (s' & St & K').
    exists s'. eexists. split; [exact St|]. split; [| rewrite lock_exit_runs, G; reflexivity]. exact K'.
  - intros G. pose proof G as G'. apply exit_guard_fails_iff in G' as [G1 G2].
    repeat split; auto.
    + intros ->. apply G2. unfold link in K. rewrite (k_owner _ _ _ _ _ _ _ K). exact O.
    + rewrite lock_exit_runs, G. reflexivity.
  - intros ->. eapply exit_guard_owner; eauto.
Qed.

(** ** the hypotheses are satisfiable: a concrete history on a freshly allocated lock.
    activity 0 enters, activity 1 requests (parks with wake-up 0), 0 leaves (hand-off: 1 designated, its
    wake-up scheduled), 1 is resumed by its wake-up and is inside. *)
Definition ex_base : objs :=
  {| kern := loop_init 2 (Fin 0); sigs := []; astat := [AsNew; AsNew]; notifs := []; flags := [];
     tracked := []; tasks := []; scopes := []; locks := []; queues := []; chans := []; ress := [];
     tnames := []; snames := []; trace := []; serial := 0; closing := 0 |}.
Definition ex_o0 : objs := alloc_lock ex_base.
Definition ex_wk0 : aid -> sid := fun _ => 7.
Definition ex_o1 := sec_enter ex_o0 0 0.
Definition ex_o2 := sec_enter ex_o1 0 1.
Definition ex_o3 := sec_exit ex_o2 0.
Definition ex_o4 := sec_wake ex_o3 0 1 0.

Example ex_history :
  exists s, linked 0 ex_o4 (LP.upd ex_wk0 1 0) s /\
            LP.project s = (2, 1, [], []) /\
            proj_lock ex_o4 0 (LP.upd ex_wk0 1 0) [0; 1] = (2, 1, [], [1]) /\
            proj_lock ex_o3 0 (LP.upd ex_wk0 1 0) [0; 1] = (2, 0, [], [1]) /\
            proj_lock ex_o2 0 (LP.upd ex_wk0 1 0) [0; 1] = (1, 1, [1], []).
Proof.
  eexists. split; [| split; [| repeat split; vm_compute; reflexivity ]].
  - unfold ex_o4.
    change 0 with ((LP.upd ex_wk0 1 0) 1) at 4.
    eapply lk_wake with (a := 1).
    + unfold ex_o3. eapply lk_exit with (a := 0) (n := 0).
      * unfold ex_o2. change (LP.upd ex_wk0 1 0) with (wk_enter ex_o1 0 1 ex_wk0).
        eapply lk_request.
        -- unfold ex_o1. change ex_wk0 with (wk_enter ex_o0 0 0 ex_wk0) at 1.
           eapply lk_request.
           ++ apply lk_init. exact (link_alloc_lock ex_base ex_wk0).
           ++ cbn. discriminate.
           ++ reflexivity.
           ++ reflexivity.
        -- cbn. discriminate.
        -- reflexivity.
        -- reflexivity.
      * reflexivity.
      * reflexivity.
    + reflexivity.
    + cbn. auto.
    + reflexivity.
  - reflexivity.
Qed.

Print Assumptions sim_request.
Print Assumptions sim_wake.
Print Assumptions sim_foreign.
Print Assumptions sim_exit.
Print Assumptions link_release.
Print Assumptions link_unsubscribe.
Print Assumptions lock_exit_runs.
Print Assumptions lock_enter_free_runs.
Print Assumptions lock_enter_again_runs.
Print Assumptions lock_enter_wait_sleeps.
Print Assumptions lock_wait_woken.
Print Assumptions lock_wait_foreign.
Print Assumptions machine_request_immediate.
Print Assumptions machine_request_waits.
Print Assumptions machine_wake.
Print Assumptions machine_foreign.
Print Assumptions machine_exit.
Print Assumptions linked_sound.
Print Assumptions linked_progress.
Print Assumptions machine_free_iff_idle.
Print Assumptions machine_available_spec.
Print Assumptions machine_mutex.
Print Assumptions machine_waiting_list.
Print Assumptions machine_owner_can_move.
Print Assumptions machine_unsubscribe_safe.
Print Assumptions ex_history.
