(* SimRes.v -- executable model of the SimPy-style resources of usim.py (property C19)

   Source: /repo/usim/py/resources/{base,container,store,resource}.py.

   One generic two-queue machine (BaseResource): a put queue and a get queue of pending requests,
   a content, and the list of granted events whose callbacks have not been processed yet.

     Put.__init__ / Get.__init__   enqueue (list.append or SortedQueue.add) and run the own trigger
     _trigger_put / _trigger_get   takewhile(_do_x, queue); del queue[:n]      = serve_prefix
     FilterStore._trigger_get      [e for e in queue if not _do_get(e)]         = serve_all
     event.succeed()               schedules the callbacks; they run in a LATER turn of the same
                                   time step and trigger the OPPOSITE queue       = OProc id
     cancel                        queue.remove(request) if not triggered; no re-trigger (SimPy)

   Requests are identified by numbers (ids); the environment (processes) may issue any operation
   at any time: theorems quantify over all operation lists.  *)
From Coq Require Import ZArith List Bool Lia.
Import ListNotations.
Local Open Scope Z_scope.

Set Implicit Arguments.

(* ------------------------------------------------------------------------------------------ *)
Section Machine.
  Variables C P G N : Type.   (* content, put request, get request, note attached to a grant *)

  Record mach := Mach {
    okp : P -> bool;                                   (* constructor accepts the request *)
    okg : G -> bool;
    do_put : Z -> C -> nat * P -> option (C * N);      (* _do_put at time t: None = returns False *)
    do_get : Z -> C -> nat * G -> option (C * N);
    ins : nat * P -> list (nat * P) -> list (nat * P); (* put_queue.append *)
    get_all : bool }.                                  (* FilterStore._trigger_get *)

  Inductive op :=
  | OTime (t : Z)                 (* the clock moved to t *)
  | OPut (id : nat) (p : P)       (* put / request *)
  | OGet (id : nat) (g : G)       (* get / release *)
  | OCancel (id : nat)
  | OProc (id : nat).             (* the callbacks of granted event id are processed *)

  Inductive ev :=
  | EPut (id : nat) (p : P) (n : N)     (* put request id was granted *)
  | EGet (id : nat) (g : G) (n : N).

  Record state := St {
    now : Z;
    content : C;
    putq : list (nat * P);
    getq : list (nat * G);
    pend : list (nat * bool) }.   (* granted, callbacks not yet run; true = it is a put *)

  Section Serve.
    Variable R : Type.
    Variable f : C -> nat * R -> option (C * N).

    (* takewhile(f, q) and removal of the served prefix *)
    Fixpoint serve_prefix (c : C) (q : list (nat * R)) : C * list (nat * R * N) * list (nat * R) :=
      match q with
      | [] => (c, [], [])
      | r :: q' =>
          match f c r with
          | Some (c1, n) => let '(c2, gs, rest) := serve_prefix c1 q' in (c2, (r, n) :: gs, rest)
          | None => (c, [], q)
          end
      end.

    (* every request is tried once, in order; the ones not served stay *)
    Fixpoint serve_all (c : C) (q : list (nat * R)) : C * list (nat * R * N) * list (nat * R) :=
      match q with
      | [] => (c, [], [])
      | r :: q' =>
          match f c r with
          | Some (c1, n) => let '(c2, gs, rest) := serve_all c1 q' in (c2, (r, n) :: gs, rest)
          | None => let '(c2, gs, rest) := serve_all c q' in (c2, gs, r :: rest)
          end
      end.
  End Serve.

  Definition gid {R} (g : nat * R * N) : nat := fst (fst g).

  Variable M : mach.

  Definition trigger_put (s : state) : state * list ev :=
    let '(c, gs, rest) := serve_prefix (do_put M (now s)) (content s) (putq s) in
    (St (now s) c rest (getq s) (pend s ++ map (fun g => (gid g, true)) gs),
     map (fun g => EPut (gid g) (snd (fst g)) (snd g)) gs).

  Definition trigger_get (s : state) : state * list ev :=
    let '(c, gs, rest) :=
      (if get_all M then serve_all (do_get M (now s)) (content s) (getq s)
       else serve_prefix (do_get M (now s)) (content s) (getq s)) in
    (St (now s) c (putq s) rest (pend s ++ map (fun g => (gid g, false)) gs),
     map (fun g => EGet (gid g) (snd (fst g)) (snd g)) gs).

  Definition remove_id {R} (id : nat) (q : list (nat * R)) : list (nat * R) :=
    filter (fun r => negb (Nat.eqb (fst r) id)) q.

  (* first pending entry of event id *)
  Fixpoint take_pend (id : nat) (l : list (nat * bool)) : option (bool * list (nat * bool)) :=
    match l with
    | [] => None
    | (i, b) :: l' =>
        if Nat.eqb i id then Some (b, l')
        else match take_pend id l' with
             | Some (b', r) => Some (b', (i, b) :: r)
             | None => None
             end
    end.

  Definition step (s : state) (o : op) : state * list ev :=
    match o with
    | OTime t => (St t (content s) (putq s) (getq s) (pend s), [])
    | OPut id p =>
        if okp M p
        then trigger_put (St (now s) (content s) (ins M (id, p) (putq s)) (getq s) (pend s))
        else (s, [])
    | OGet id g =>
        if okg M g
        then trigger_get (St (now s) (content s) (putq s) (getq s ++ [(id, g)]) (pend s))
        else (s, [])
    | OCancel id =>
        (St (now s) (content s) (remove_id id (putq s)) (remove_id id (getq s)) (pend s), [])
    | OProc id =>
        match take_pend id (pend s) with
        | Some (true, l) => trigger_get (St (now s) (content s) (putq s) (getq s) l)
        | Some (false, l) => trigger_put (St (now s) (content s) (putq s) (getq s) l)
        | None => (s, [])
        end
    end.

  Fixpoint run (s : state) (h : list op) : state * list ev :=
    match h with
    | [] => (s, [])
    | o :: h' =>
        let '(s1, e1) := step s o in
        let '(s2, e2) := run s1 h' in
        (s2, e1 ++ e2)
    end.

  Definition init (c : C) : state := St 0 c [] [] [].

  Definition is_some {A} (o : option A) : bool := match o with Some _ => true | None => false end.

  (* "the head request of the queue is grantable" (FilterStore: some request is) *)
  Definition grantable_put (s : state) : bool :=
    match putq s with
    | r :: _ => is_some (do_put M (now s) (content s) r)
    | [] => false
    end.

  Definition grantable_get (s : state) : bool :=
    if get_all M then existsb (fun r => is_some (do_get M (now s) (content s) r)) (getq s)
    else match getq s with
         | r :: _ => is_some (do_get M (now s) (content s) r)
         | [] => false
         end.

  Definition is_cancel (o : op) : bool := match o with OCancel _ => true | _ => false end.
End Machine.

Arguments init {C P G} c.
Arguments OTime {P G} t.
Arguments OCancel {P G} id.
Arguments OProc {P G} id.
Arguments OPut {P G} id p.
Arguments OGet {P G} id g.
Arguments EPut {P G N} id p n.
Arguments EGet {P G N} id g n.

(* ------------------------------------------------------------------------------------------ *)
(* Helpers shared by the instances *)

(* SortedList.add / SortedKeyList.add: bisect_right, i.e. after every element that is <= x *)
Fixpoint sinsert {A} (le : A -> A -> bool) (x : A) (l : list A) : list A :=
  match l with
  | [] => [x]
  | y :: l' => if le y x then y :: sinsert le x l' else x :: l
  end.

Definition lex3_lt (a b : Z * Z * Z) : bool :=
  let '(a1, a2, a3) := a in
  let '(b1, b2, b3) := b in
  (a1 <? b1) || ((a1 =? b1) && ((a2 <? b2) || ((a2 =? b2) && (a3 <? b3)))).

Definition lex3_le (a b : Z * Z * Z) : bool := negb (lex3_lt b a).

(* ------------------------------------------------------------------------------------------ *)
(* Container (container.py) *)
Definition container (cap : Z) : mach Z Z Z unit :=
  Mach (fun a => 0 <? a) (fun a => 0 <? a)
    (fun _ c r => if snd r <=? cap - c then Some (c + snd r, tt) else None)
    (fun _ c r => if snd r <=? c then Some (c - snd r, tt) else None)
    (fun r q => q ++ [r]) false.

(* ------------------------------------------------------------------------------------------ *)
(* Stores (store.py); an item is (key, tag): PriorityStore orders by key (PriorityItem),
   FilterStore filters are "key mod k = r" *)
Definition item := (Z * Z)%type.
Definition ikey (x : item) : Z := fst x.
Definition item_le (a b : item) : bool := ikey a <=? ikey b.

Definition store_get (c : list item) : option (list item * option item) :=
  match c with x :: c' => Some (c', Some x) | [] => None end.

Definition store (cap : nat) : mach (list item) item unit (option item) :=
  Mach (fun _ => true) (fun _ => true)
    (fun _ c r => if (length c <? cap)%nat then Some (c ++ [snd r], None) else None)
    (fun _ c _ => store_get c)
    (fun r q => q ++ [r]) false.

Definition prioritystore (cap : nat) : mach (list item) item unit (option item) :=
  Mach (fun _ => true) (fun _ => true)
    (fun _ c r => if (length c <? cap)%nat then Some (sinsert item_le (snd r) c, None) else None)
    (fun _ c _ => store_get c)
    (fun r q => q ++ [r]) false.

Definition accepts (f : Z * Z) (x : item) : bool := (ikey x) mod (fst f) =? snd f.

Fixpoint first_match (f : item -> bool) (l : list item) : option (item * list item) :=
  match l with
  | [] => None
  | x :: l' =>
      if f x then Some (x, l')
      else match first_match f l' with
           | Some (y, r) => Some (y, x :: r)
           | None => None
           end
  end.

Definition filterstore (cap : nat) : mach (list item) item (Z * Z) (option item) :=
  Mach (fun _ => true) (fun f => 0 <? fst f)
    (fun _ c r => if (length c <? cap)%nat then Some (c ++ [snd r], None) else None)
    (fun _ c r => match first_match (accepts (snd r)) c with
                  | Some (x, c') => Some (c', Some x)
                  | None => None
                  end)
    (fun r q => q ++ [r]) true.

(* ------------------------------------------------------------------------------------------ *)
(* Resources (resource.py) *)
Record req := Req { prio : Z; rtime : Z; preempt : bool; owner : Z }.

(* PriorityRequest.key = (priority, time, not preempt) *)
Definition rkey (r : req) : Z * Z * Z := (prio r, rtime r, if preempt r then 0 else 1).

Definition user := (nat * req * Z)%type.          (* request id, request, usage_since *)
Definition uid (u : user) : nat := fst (fst u).
Definition ureq (u : user) : req := snd (fst u).
Definition usince (u : user) : Z := snd u.

(* list.remove(x): first occurrence, nothing if absent (ValueError swallowed by _do_get) *)
Fixpoint remove_user (rid : nat) (c : list user) : list user :=
  match c with
  | [] => []
  | u :: c' => if Nat.eqb (uid u) rid then c' else u :: remove_user rid c'
  end.

Definition rq_le (a b : nat * req) : bool := lex3_le (rkey (snd a)) (rkey (snd b)).
Definition user_le (a b : user) : bool := lex3_le (rkey (ureq a)) (rkey (ureq b)).

Definition res_put (cap : nat) (t : Z) (c : list user) (r : nat * req) : option (list user * option user) :=
  if (length c <? cap)%nat then Some (c ++ [(r, t)], None) else None.

Definition res_get (c : list user) (r : nat * nat) : option (list user * option user) :=
  Some (remove_user (snd r) c, None).

Definition resource (cap : nat) : mach (list user) req nat (option user) :=
  Mach (fun _ => true) (fun _ => true) (res_put cap) (fun _ => res_get)
    (fun r q => q ++ [r]) false.

Definition priorityresource (cap : nat) : mach (list user) req nat (option user) :=
  Mach (fun _ => true) (fun _ => true) (res_put cap) (fun _ => res_get)
    (sinsert rq_le) false.

(* PreemptiveResource._do_put: users is a SortedQueue; users[-1] is the worst user *)
Definition preempt_victim (cap : nat) (c : list user) (p : req) : option user :=
  if (cap <=? length c)%nat && preempt p
  then match rev c with
       | v :: _ => if lex3_lt (rkey p) (rkey (ureq v)) then Some v else None
       | [] => None
       end
  else None.

Definition pre_put (cap : nat) (t : Z) (c : list user) (r : nat * req) : option (list user * option user) :=
  let v := preempt_victim cap c (snd r) in
  let c1 := match v with Some _ => removelast c | None => c end in
  if (length c1 <? cap)%nat then Some (sinsert user_le (r, t) c1, v) else None.

Definition preemptiveresource (cap : nat) : mach (list user) req nat (option user) :=
  Mach (fun _ => true) (fun _ => true) (pre_put cap) (fun _ => res_get)
    (sinsert rq_le) false.

(* ------------------------------------------------------------------------------------------ *)
(* Observation of a state, for the correspondence check: lists of integers *)
Definition zid (n : nat) : Z := Z.of_nat n.

Fixpoint zinsert (x : Z) (l : list Z) : list Z :=
  match l with [] => [x] | y :: l' => if x <=? y then x :: l else y :: zinsert x l' end.
Definition zsort (l : list Z) : list Z := fold_right zinsert [] l.

Fixpoint eql (a b : list Z) : bool :=
  match a, b with
  | [], [] => true
  | x :: a', y :: b' => (x =? y) && eql a' b'
  | _, _ => false
  end.
Fixpoint eqll (a b : list (list Z)) : bool :=
  match a, b with
  | [], [] => true
  | x :: a', y :: b' => eql x y && eqll a' b'
  | _, _ => false
  end.

Section Obs.
  Variables C P G N : Type.
  Variable M : mach C P G N.
  Variable enc_c : C -> list Z.
  Variable enc_e : ev P G N -> list Z.

  Definition obs (s : state C P G) (outs : list (ev P G N)) : list (list Z) :=
    [ concat (map enc_e outs); enc_c (content s);
      map (fun r => zid (fst r)) (putq s); map (fun r => zid (fst r)) (getq s);
      zsort (map (fun r => zid (fst r)) (pend s)) ].

  (* 0 = the whole history agrees; k+1 = entry k is the first that differs *)
  Fixpoint replay (s : state C P G) (l : list (op P G * list (list Z))) (i : nat) : nat :=
    match l with
    | [] => O
    | (o, e) :: l' =>
        let '(s1, outs) := step M s o in
        if eqll (obs s1 outs) e then replay s1 l' (S i) else S i
    end.
End Obs.

Definition enc_container (e : ev Z Z unit) : list Z :=
  match e with EPut id a _ => [0; zid id; a] | EGet id a _ => [1; zid id; a] end.

Definition enc_items (c : list item) : list Z := concat (map (fun x => [fst x; snd x]) c).

Definition enc_store {Gt} (e : ev item Gt (option item)) : list Z :=
  match e with
  | EPut id x _ => [0; zid id; fst x; snd x]
  | EGet id _ (Some x) => [1; zid id; fst x; snd x]
  | EGet id _ None => [1; zid id; -1; -1]
  end.

Definition enc_users (c : list user) : list Z := concat (map (fun u => [zid (uid u); usince u]) c).

Definition enc_res (e : ev req nat (option user)) : list Z :=
  match e with
  | EPut id p None => [0; zid id; -1; 0; 0; owner p]
  | EPut id p (Some v) => [0; zid id; zid (uid v); usince v; owner (ureq v); owner p]
  | EGet id rid _ => [1; zid id; zid rid]
  end.

Inductive tcase :=
| TContainer (cap init : Z) (l : list (op Z Z * list (list Z)))
| TStore (cap : nat) (l : list (op item unit * list (list Z)))
| TPriorityStore (cap : nat) (l : list (op item unit * list (list Z)))
| TFilterStore (cap : nat) (l : list (op item (Z * Z) * list (list Z)))
| TResource (cap : nat) (l : list (op req nat * list (list Z)))
| TPriorityResource (cap : nat) (l : list (op req nat * list (list Z)))
| TPreemptiveResource (cap : nat) (l : list (op req nat * list (list Z))).

Definition check_case (t : tcase) : nat :=
  match t with
  | TContainer cap i l => replay (container cap) (fun c => [c]) enc_container (init i) l 0
  | TStore cap l => replay (store cap) enc_items enc_store (init []) l 0
  | TPriorityStore cap l => replay (prioritystore cap) enc_items enc_store (init []) l 0
  | TFilterStore cap l => replay (filterstore cap) enc_items enc_store (init []) l 0
  | TResource cap l => replay (resource cap) enc_users enc_res (init []) l 0
  | TPriorityResource cap l => replay (priorityresource cap) enc_users enc_res (init []) l 0
  | TPreemptiveResource cap l => replay (preemptiveresource cap) enc_users enc_res (init []) l 0
  end.

(* the model's own observation after a history (used to explain a mismatch) *)
Section Explain.
  Variables C P G N : Type.
  Variable M : mach C P G N.
  Variable enc_c : C -> list Z.
  Variable enc_e : ev P G N -> list Z.
  Fixpoint obs_at (s : state C P G) (l : list (op P G * list (list Z))) (k : nat) : list (list Z) :=
    match l with
    | [] => []
    | (o, _) :: l' =>
        let '(s1, outs) := step M s o in
        match k with O => obs enc_c enc_e s1 outs | S k' => obs_at s1 l' k' end
    end.
End Explain.

Definition explain_case (t : tcase) (k : nat) : list (list Z) :=
  match t with
  | TContainer cap i l => obs_at (container cap) (fun c => [c]) enc_container (init i) l k
  | TStore cap l => obs_at (store cap) enc_items enc_store (init []) l k
  | TPriorityStore cap l => obs_at (prioritystore cap) enc_items enc_store (init []) l k
  | TFilterStore cap l => obs_at (filterstore cap) enc_items enc_store (init []) l k
  | TResource cap l => obs_at (resource cap) enc_users enc_res (init []) l k
  | TPriorityResource cap l => obs_at (priorityresource cap) enc_users enc_res (init []) l k
  | TPreemptiveResource cap l => obs_at (preemptiveresource cap) enc_users enc_res (init []) l k
  end.
