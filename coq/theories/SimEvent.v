(** C18 - the SimPy layer of usim ([usim/py/events.py], [usim/py/core.py]) as a deterministic
    discrete-event machine.

    Two layers.
    * the *event protocol* ([proto], [exec_op]): a time-ordered FIFO agenda, events
      (pending / triggered / processed, waiters, callbacks, defused), interrupt queues, native flags,
      timeouts and the stop of [Environment.until].  Its theorems (SimEventProps.v) hold for ALL
      operation histories.
    * the *machine* ([mstate], [micro]): processes / native activities / condition checkers as
      first-order scripts; every micro step reads the protocol state, decides a list of protocol
      operations and applies it with [exec_ops] - so every machine run is an operation history by
      construction ([micro_is_history]).  The machine is tied to /repo by the correspondence check.

    Transcription (see design_notes/C18.md): one agenda item = one [Activation] of usim's loop
    (FIFO per time step, [loop.py]); a revoked wake-up = an item whose token is stale. *)
From Coq Require Import List ZArith Bool Lia Arith.
Import ListNotations.
Open Scope Z_scope.

(** * Values *)
Inductive outcome :=
| OVal (v : Z)             (* success with an integer (None = -1) *)
| OIntr (c : Z)            (* exception Interrupt(c) *)
| OFail (k : Z)            (* exception Fail(k) *)
| OCond (ms : list nat)    (* ConditionValue: the member events *)
| OTrue.                   (* value of an awaited native Flag / Instant *)

Definition is_ok (o : outcome) : bool :=
  match o with OIntr _ | OFail _ => false | _ => true end.

Definition enc (o : outcome) : list Z :=
  match o with
  | OVal v => [0; v] | OIntr c => [1; c] | OFail k => [2; k]
  | OCond ms => 4 :: map Z.of_nat ms | OTrue => [6]
  end.

(** * Protocol state *)
Definition waiter := (nat * nat)%type.           (* task id, wake-up token *)

Inductive item :=
| IStart (tid : nat)                       (* first activation of a task *)
| IWake (tid tok : nat)                    (* resumption; void when the token is stale *)
| IAfter (tid tok : nat)                   (* the one-shot trigger activity of [time >= T] *)
| ICallbacks (e : nat)                     (* the task scheduled by Event._trigger *)
| ITmoStart (e : nat) (d v born : Z)       (* Timeout._trigger_timeout, first activation *)
| ITmoFire (e : nat) (v born d : Z)        (* ... its resumption after [time + delay] *)
| IStopFail.                               (* Scope._cancel_self of the environment scope *)

Definition client_item (it : item) : bool :=
  match it with IStart _ | IWake _ _ | IAfter _ _ => true | _ => false end.

Record event := mkEv {
  e_val : option outcome;      (* Event._value *)
  e_time : Z;                  (* ghost: time of the trigger *)
  e_proc : bool;               (* callbacks is None *)
  e_cbs : list nat;            (* callbacks *)
  e_added : list nat;          (* ghost: every callback ever registered *)
  e_def : bool;                (* defused *)
  e_wait : list waiter;        (* __usimpy_flag__._waiting *)
  e_leaves : list nat }.       (* static: flattened leaf events of a Condition *)

Record iq := mkIq {
  q_ev : nat;                  (* the event of the owning process *)
  q_causes : list Z;
  q_wait : list waiter;
  q_acc : list Z;              (* ghost: accepted interrupts *)
  q_del : list Z }.            (* ghost: delivered interrupts *)

Record nflag := mkNf { f_val : bool; f_wait : list waiter }.

Record proto := mkP {
  now : Z;
  agenda : list (Z * item);
  evs : list event;
  iqs : list iq;
  nfs : list nflag;
  started : bool;              (* Environment._loop is not None *)
  startup : list item;         (* Environment._startup *)
  closed : bool;               (* the environment scope has been closed *)
  fails : list outcome;        (* Scope._child_failures *)
  emb : bool;
  log : list (list Z);
  delivered : list (Z * item); (* ghost: executed agenda items with the time of execution *)
  calls : list (Z * nat * nat) (* ghost: callback invocations (time, event, callback) *) }.

Definition ev0 : event := mkEv None 0 false [] [] false [] [].
Definition iq0 : iq := mkIq 0 [] [] [] [].
Definition nf0 : nflag := mkNf false [].

Definition set_now t p := mkP t (agenda p) (evs p) (iqs p) (nfs p) (started p) (startup p) (closed p) (fails p) (emb p) (log p) (delivered p) (calls p).
Definition set_agenda a p := mkP (now p) a (evs p) (iqs p) (nfs p) (started p) (startup p) (closed p) (fails p) (emb p) (log p) (delivered p) (calls p).
Definition set_evs x p := mkP (now p) (agenda p) x (iqs p) (nfs p) (started p) (startup p) (closed p) (fails p) (emb p) (log p) (delivered p) (calls p).
Definition set_iqs x p := mkP (now p) (agenda p) (evs p) x (nfs p) (started p) (startup p) (closed p) (fails p) (emb p) (log p) (delivered p) (calls p).
Definition set_nfs x p := mkP (now p) (agenda p) (evs p) (iqs p) x (started p) (startup p) (closed p) (fails p) (emb p) (log p) (delivered p) (calls p).
Definition set_started b l p := mkP (now p) (agenda p) (evs p) (iqs p) (nfs p) b l (closed p) (fails p) (emb p) (log p) (delivered p) (calls p).
Definition set_closed b p := mkP (now p) (agenda p) (evs p) (iqs p) (nfs p) (started p) (startup p) b (fails p) (emb p) (log p) (delivered p) (calls p).
Definition set_fails x p := mkP (now p) (agenda p) (evs p) (iqs p) (nfs p) (started p) (startup p) (closed p) x (emb p) (log p) (delivered p) (calls p).
Definition set_log x p := mkP (now p) (agenda p) (evs p) (iqs p) (nfs p) (started p) (startup p) (closed p) (fails p) (emb p) x (delivered p) (calls p).
Definition set_delivered x p := mkP (now p) (agenda p) (evs p) (iqs p) (nfs p) (started p) (startup p) (closed p) (fails p) (emb p) (log p) x (calls p).
Definition set_calls x p := mkP (now p) (agenda p) (evs p) (iqs p) (nfs p) (started p) (startup p) (closed p) (fails p) (emb p) (log p) (delivered p) x.

(** list helpers *)
Fixpoint upd {A} (n : nat) (f : A -> A) (l : list A) : list A :=
  match l, n with
  | [], _ => []
  | x :: r, O => f x :: r
  | x :: r, S k => x :: upd k f r
  end.

Definition waiter_eqb (a b : waiter) : bool := Nat.eqb (fst a) (fst b) && Nat.eqb (snd a) (snd b).

Fixpoint remove1 (w : waiter) (l : list waiter) : list waiter :=
  match l with
  | [] => []
  | x :: r => if waiter_eqb w x then r else x :: remove1 w r
  end.

Definition get_ev p e := nth e (evs p) ev0.
Definition get_iq p q := nth q (iqs p) iq0.
Definition get_nf p f := nth f (nfs p) nf0.
Definition upd_ev e f p := set_evs (upd e f (evs p)) p.
Definition upd_iq q f p := set_iqs (upd q f (iqs p)) p.
Definition upd_nf n f p := set_nfs (upd n f (nfs p)) p.

Definition triggered p e : bool := match e_val (get_ev p e) with Some _ => true | None => false end.
Definition ev_ok p e : bool := match e_val (get_ev p e) with Some o => is_ok o | None => false end.
Definition val_of p e : outcome := match e_val (get_ev p e) with Some o => o | None => OVal (-1) end.

(** the agenda: sorted by time, FIFO among equal times ([WaitQueue] + one deque per time) *)
Fixpoint ins (t : Z) (it : item) (a : list (Z * item)) : list (Z * item) :=
  match a with
  | [] => [(t, it)]
  | (t', it') :: r => if t' <=? t then (t', it') :: ins t it r else (t, it) :: a
  end.

Definition push t it p := set_agenda (ins t it (agenda p)) p.
Definition push_now it p := push (now p) it p.
Definition wake_all (ws : list waiter) p := fold_left (fun p w => push_now (IWake (fst w) (snd w)) p) ws p.
Definition emit (actor step : Z) (pay : list Z) p := set_log (log p ++ [actor :: step :: now p :: pay]) p.

(** [Event._trigger] behind [succeed] / [fail] / [trigger]; a second trigger changes nothing *)
Definition set_e_val o t (x : event) := mkEv (Some o) t (e_proc x) (e_cbs x) (e_added x) (e_def x) [] (e_leaves x).
Definition trigger (e : nat) (o : outcome) p :=
  match e_val (get_ev p e) with
  | Some _ => p
  | None =>
    let ws := e_wait (get_ev p e) in
    let p1 := wake_all ws (upd_ev e (set_e_val o (now p)) p) in
    if closed p1 then p1
    else if started p1 then push_now (ICallbacks e) p1
         else set_started false (startup p1 ++ [ICallbacks e]) p1
  end.

Definition stop (res : list Z) p :=
  if closed p then p
  else set_closed true (set_log (log p ++ [300 :: 0 :: (if emb p then now p else 0) :: res]) p).

(** [Event._invoke_callbacks] *)
Definition set_processed (x : event) := mkEv (e_val x) (e_time x) true [] (e_added x) (e_def x) (e_wait x) (e_leaves x).
Definition run_callbacks (e : nat) p :=
  let x := get_ev p e in
  if e_proc x then p
  else
    let o := val_of p e in
    let p1 := fold_left (fun p cb => set_calls (calls p ++ [(now p, e, cb)])
                                       (emit (200 + Z.of_nat cb) (Z.of_nat e) (enc o) p))
                        (e_cbs x) p in
    let p2 := upd_ev e set_processed p1 in
    if is_ok o || e_def x then p2
    else push_now IStopFail (set_fails (fails p2 ++ [o]) p2).

Definition pop p :=
  match agenda p with
  | [] => p
  | (t, it) :: rest =>
    let p1 := set_delivered (delivered p ++ [(t, it)]) (set_agenda rest (set_now t p)) in
    if closed p1 then p1 else
    match it with
    | ICallbacks e => run_callbacks e p1
    | ITmoStart e d v born => push (t + d) (ITmoFire e v born d) p1
    | ITmoFire e v _ _ => trigger e (OVal v) p1
    | IStopFail => stop (11 :: enc (hd (OVal 0) (fails p1))) p1
    | _ => p1
    end
  end.

Definition set_e_wait l (x : event) := mkEv (e_val x) (e_time x) (e_proc x) (e_cbs x) (e_added x) (e_def x) l (e_leaves x).
Definition set_e_def (x : event) := mkEv (e_val x) (e_time x) (e_proc x) (e_cbs x) (e_added x) true (e_wait x) (e_leaves x).
Definition add_e_cb cb (x : event) := mkEv (e_val x) (e_time x) (e_proc x) (e_cbs x ++ [cb]) (e_added x ++ [cb]) (e_def x) (e_wait x) (e_leaves x).
Definition set_q_wait l (q : iq) := mkIq (q_ev q) (q_causes q) l (q_acc q) (q_del q).

Inductive op :=
| OpPush (t : Z) (it : item)           (* Loop.schedule of a client activation *)
| OpPop                                (* the loop runs the next activation *)
| OpTrigger (e : nat) (o : outcome)    (* succeed / fail / trigger *)
| OpSubscribe (e : nat) (w : waiter)   (* Condition.__subscribe__ on the event's flag *)
| OpUnsub (e : nat) (w : waiter)
| OpAddCb (e cb : nat)
| OpDefuse (e : nat)
| OpTimeout (e : nat) (d v : Z)        (* Timeout.__init__ *)
| OpIntPush (q : nat) (c : Z)          (* Process.interrupt *)
| OpIntPop (q : nat)                   (* InterruptQueue.pop *)
| OpIntSub (q : nat) (w : waiter)
| OpIntUnsub (q : nat) (w : waiter)
| OpFlagSet (f : nat)
| OpFlagSub (f : nat) (w : waiter)
| OpFlagUnsub (f : nat) (w : waiter)
| OpEmit (actor step : Z) (pay : list Z)
| OpEnvStart                           (* Environment.__aenter__: flush _startup *)
| OpStop (res : list Z).               (* StopSimulation leaves the environment scope *)

Definition exec_op (p : proto) (o : op) : proto :=
  match o with
  | OpPush t it => if client_item it && (now p <=? t) then push t it p else p
  | OpPop => pop p
  | OpTrigger e o => trigger e o p
  | OpSubscribe e w =>
      if triggered p e then push_now (IWake (fst w) (snd w)) p
      else upd_ev e (fun x => set_e_wait (e_wait x ++ [w]) x) p
  | OpUnsub e w => upd_ev e (fun x => set_e_wait (remove1 w (e_wait x)) x) p
  | OpAddCb e cb => if e_proc (get_ev p e) then p else upd_ev e (add_e_cb cb) p
  | OpDefuse e => upd_ev e set_e_def p
  | OpTimeout e d v =>
      (* a Timeout created before the environment runs is outside the model *)
      if (0 <=? d) && negb (closed p) && started p then push_now (ITmoStart e d v (now p)) p else p
  | OpIntPush q c =>
      let x := get_iq p q in
      if triggered p (q_ev x) then p
      else
        let p1 := upd_iq q (fun x => mkIq (q_ev x) (q_causes x ++ [c]) (q_wait x) (q_acc x ++ [c]) (q_del x)) p in
        match q_causes x with
        | [] => wake_all (q_wait x) (upd_iq q (set_q_wait []) p1)
        | _ => p1
        end
  | OpIntPop q =>
      match q_causes (get_iq p q) with
      | [] => p
      | c :: r => upd_iq q (fun x => mkIq (q_ev x) r (q_wait x) (q_acc x) (q_del x ++ [c])) p
      end
  | OpIntSub q w =>
      match q_causes (get_iq p q) with
      | [] => upd_iq q (fun x => set_q_wait (q_wait x ++ [w]) x) p
      | _ => push_now (IWake (fst w) (snd w)) p
      end
  | OpIntUnsub q w => upd_iq q (fun x => set_q_wait (remove1 w (q_wait x)) x) p
  | OpFlagSet f =>
      let x := get_nf p f in
      if f_val x then p else wake_all (f_wait x) (upd_nf f (fun _ => mkNf true []) p)
  | OpFlagSub f w =>
      if f_val (get_nf p f) then push_now (IWake (fst w) (snd w)) p
      else upd_nf f (fun x => mkNf (f_val x) (f_wait x ++ [w])) p
  | OpFlagUnsub f w => upd_nf f (fun x => mkNf (f_val x) (remove1 w (f_wait x))) p
  | OpEmit a s pay => emit a s pay p
  | OpEnvStart =>
      if started p then p
      else fold_left (fun p it => push_now it p) (startup p) (set_started true [] p)
  | OpStop res => stop res p
  end.

Definition exec_ops (p : proto) (ops : list op) : proto := fold_left exec_op ops p.

(** * The machine: scripts on top of the protocol *)
Inductive target :=
| TEv (e : nat)                                  (* an existing event: plain or a process *)
| TTo (e : nat) (d v : Z)                        (* env.timeout(d, v) created here *)
| TCond (e : nat) (isall : bool) (ch : list target)   (* AllOf / AnyOf created here *)
| TNd (d : Z)                                    (* usim.time + d *)
| TNf (f : nat).                                 (* a native Flag *)

Inductive action :=
| AYield (t : target) (catch : bool)
| ASucc (e : nat) (v : Z) | AFail (e : nat) (k : Z) | ATrig (e src : nat)
| AIntr (q : nat) (c : Z) | AStart (q : nat) | ACb (e cb : nat)
| ARet (v : Z) | ARaise (k : Z)
| AWait (d : Z) | AAwait (e : nat) | ASet (f : nat).      (* native activities only *)

Inductive until_t := UNone | UTime (t : Z) | UEvent (e : nat).

Record graph := mkG {
  g_emb : bool;
  g_until : until_t;
  g_nnodes : nat;
  g_nflags : nat;
  g_procs : list (nat * bool * list action);     (* event id, started up front, script *)
  g_nats : list (list action);
  g_envpos : nat }.

Inductive pstate :=
| PNew | PEvA (e : nat) | PEvB (e : nat)
| PNat (val : outcome) (f : option nat) | PNatX (val : outcome).

Inductive tkind :=
| KRoot
| KCond (e : nat) (isall : bool) (members unobs : list nat) (obs : nat) (ph : nat)
| KProc (p pc : nat) (st : pstate)
| KNat (n pc : nat) (st : nat).            (* st: 0 running, 1 wait, 2 await, 3 set *)

Record task := mkT { kind : tkind; tokn : nat; toki : nat; dead : bool }.

Inductive mode := Idle | Dispatch (it : item) | Running (tid : nat).

Record mrest := mkR { tasks : list task; tokctr : nat; mmode : mode }.
Record mstate := mkM { pr : proto; rs : mrest }.

Definition is_env (k : tkind) : bool := match k with KNat _ _ _ => false | _ => true end.
Definition task0 := mkT KRoot 0 0 true.
Definition get_task r tid := nth tid (tasks r) task0.
Definition set_task tid t r := mkR (upd tid (fun _ => t) (tasks r)) (tokctr r) (mmode r).
Definition set_mode m r := mkR (tasks r) (tokctr r) m.
Definition add_tasks l r := mkR (tasks r ++ l) (tokctr r) (mmode r).
Definition bump k r := mkR (tasks r) (tokctr r + k)%nat (mmode r).
Definition kill tid r := set_task tid (mkT (kind (get_task r tid)) 0 0 true) r.

Definition proc_of g p := nth p (g_procs g) (O, false, []).
Definition pev g p := fst (fst (proc_of g p)).
Definition pscript g p := snd (proc_of g p).

(** leaves of a condition, as [Condition._flatten_values] walks them *)
Fixpoint leaves (t : target) : list nat :=
  match t with
  | TEv e => [e] | TTo e _ _ => [e]
  | TCond _ _ ch => flat_map leaves ch
  | _ => []
  end.
Definition tid_of (t : target) : nat :=
  match t with TEv e => e | TTo e _ _ => e | TCond e _ _ => e | _ => O end.

(** creating the events of a yielded target: children first, then the condition
    (Python evaluates the argument list before the call) *)
Fixpoint build (t : target) (nowt : Z) (ntasks : nat) : list task * list op :=
  match t with
  | TTo e d v => ([], [OpTimeout e d v])
  | TCond e isall ch =>
      let '(ts, ops) := fold_left (fun acc c =>
                           let '(ts, ops) := build c nowt (ntasks + length (fst acc))%nat in
                           (fst acc ++ ts, snd acc ++ ops)) ch ([], []) in
      (ts ++ [mkT (KCond e isall (map tid_of ch) [] O O) 0 0 false],
       ops ++ [OpPush nowt (IStart (ntasks + length ts)%nat)])
  | _ => ([], [])
  end.

Definition cond_value p (leafs : list nat) : outcome := OCond (filter (ev_ok p) leafs).

Definition evaluate (isall : bool) (members : list nat) (obs : nat) : bool :=
  if isall then Nat.eqb (length members) obs
  else negb (Nat.eqb obs O) || match members with [] => true | _ => false end.

(** one pass of [_check_events] over the not yet observed members *)
Inductive scan_res := ScanFail (m : nat) | ScanOk (unobs : list nat) (obs : nat).
Fixpoint scan (trig ok : nat -> bool) (ms : list nat) (obs : nat) : scan_res :=
  match ms with
  | [] => ScanOk [] obs
  | m :: r =>
      if negb (trig m) then
        match scan trig ok r obs with ScanOk u o => ScanOk (m :: u) o | f => f end
      else if ok m then scan trig ok r (S obs)
      else ScanFail m
  end.

Definition w_of (tid tok : nat) : waiter := (tid, tok).

(** after a pass: trigger, go on waiting (postpone first) or end *)
Definition cond_after p r tid e isall members (sr : scan_res) : list op * mrest :=
  match sr with
  | ScanFail m => ([OpDefuse m; OpTrigger e (val_of p m)], kill tid r)
  | ScanOk unobs obs =>
      if negb (evaluate isall members obs) && negb (match unobs with [] => true | _ => false end) then
        let k := S (tokctr r) in
        ([OpPush (now p) (IWake tid k)],
         bump 1 (set_task tid (mkT (KCond e isall members unobs obs 1) k 0 false) r))
      else
        ((if evaluate isall members obs then [OpTrigger e (cond_value p (e_leaves (get_ev p e)))] else []),
         kill tid r)
  end.

(** a process resumes from waiting for event [e] *)
Definition proc_continue (g : graph) (p : proto) r tid pi pc (out : outcome) (exc catch : bool) (pre : list op) : list op * mrest :=
  let ops := pre ++ [OpEmit (Z.of_nat pi) (Z.of_nat pc) (enc out)] in
  if exc && negb catch then (ops ++ [OpTrigger (pev g pi) out], set_mode Idle (kill tid r))
  else (ops, set_mode (Running tid) (set_task tid (mkT (KProc pi (S pc) PNew) 0 0 false) r)).

Definition catch_of g pi pc : bool :=
  match nth_error (pscript g pi) pc with Some (AYield _ c) => c | _ => true end.

Definition deliver g p r tid pi pc e (pre : list op) : list op * mrest :=
  match q_causes (get_iq p pi) with
  | c :: _ => proc_continue g p r tid pi pc (OIntr c) true (catch_of g pi pc) (pre ++ [OpIntPop pi])
  | [] => if ev_ok p e then proc_continue g p r tid pi pc (val_of p e) false true pre
          else proc_continue g p r tid pi pc (val_of p e) true (catch_of g pi pc) (pre ++ [OpDefuse e])
  end.

(** succeed / fail / trigger / interrupt / start / add-callback, shared by processes and natives *)
Definition trig_ops p (actor step : Z) e o : list op :=
  OpTrigger e o :: (if triggered p e then [OpEmit actor step [3]]
                    else if closed p then [OpEmit actor step [13]] else []).

Definition simple_op (g : graph) (p : proto) r (actor step : Z) (a : action) : list op * mrest :=
  match a with
  | ASucc e v => (trig_ops p actor step e (OVal v), r)
  | AFail e k => (trig_ops p actor step e (OFail k), r)
  | ATrig e src =>
      if negb (triggered p e) && negb (triggered p src) then ([OpEmit actor step [8]], r)
      else (trig_ops p actor step e (val_of p src), r)
  | AIntr q c => ([OpIntPush q c], r)
  | AStart q =>
      ([OpPush (now p) (IStart (length (tasks r)))], add_tasks [mkT (KProc q 0 PNew) 0 0 false] r)
  | ACb e cb => (if e_proc (get_ev p e) then [OpEmit actor step [9]] else [OpAddCb e cb], r)
  | _ => ([], r)
  end.

Definition proc_act g p r tid pi pc : list op * mrest :=
  match nth_error (pscript g pi) pc with
  | None => ([OpTrigger (pev g pi) (OVal (-1))], set_mode Idle (kill tid r))
  | Some (ARet v) => ([OpTrigger (pev g pi) (OVal v)], set_mode Idle (kill tid r))
  | Some (ARaise k) => ([OpTrigger (pev g pi) (OFail k)], set_mode Idle (kill tid r))
  | Some (AYield (TNd d) _) =>
      let ki := S (tokctr r) in let kn := S ki in
      ([OpIntSub pi (w_of tid ki); OpPush (now p + d) (IWake tid kn)],
       set_mode Idle (bump 2 (set_task tid (mkT (KProc pi pc (PNat (if d =? 0 then OTrue else OVal (-1)) None)) kn ki false) r)))
  | Some (AYield (TNf f) _) =>
      let ki := S (tokctr r) in let kn := S ki in
      ([OpIntSub pi (w_of tid ki); OpFlagSub f (w_of tid kn)],
       set_mode Idle (bump 2 (set_task tid (mkT (KProc pi pc (PNat OTrue (Some f))) kn ki false) r)))
  | Some (AYield t _) =>
      let '(ts, ops) := build t (now p) (length (tasks r)) in
      let r1 := add_tasks ts r in
      let e := tid_of t in
      if negb (e_proc (get_ev p e)) then
        let k := S (tokctr r1) in
        (ops ++ [OpPush (now p) (IWake tid k)],
         set_mode Idle (bump 1 (set_task tid (mkT (KProc pi pc (PEvA e)) k 0 false) r1)))
      else deliver g p r1 tid pi pc e ops
  | Some a =>
      let '(ops, r1) := simple_op g p r (Z.of_nat pi) (Z.of_nat pc) a in
      (ops, set_task tid (mkT (KProc pi (S pc) PNew) 0 0 false) r1)
  end.

Definition proc_wake g p r tid (t : task) pi pc st (tok : nat) : list op * mrest :=
  match st with
  | PEvA e =>
      if triggered p e || negb (match q_causes (get_iq p pi) with [] => true | _ => false end)
      then deliver g p r tid pi pc e []
      else let k := S (tokctr r) in
           ([OpSubscribe e (w_of tid k); OpIntSub pi (w_of tid k)],
            set_mode Idle (bump 1 (set_task tid (mkT (KProc pi pc (PEvB e)) k 0 false) r)))
  | PEvB e => deliver g p r tid pi pc e [OpUnsub e (w_of tid (tokn t)); OpIntUnsub pi (w_of tid (tokn t))]
  | PNat val f =>
      if Nat.eqb tok (tokn t) then
        let k := S (tokctr r) in
        ([OpPush (now p) (IWake tid k)],
         set_mode Idle (bump 1 (set_task tid (mkT (KProc pi pc (PNatX val)) k (toki t) false) r)))
      else
        proc_continue g p r tid pi pc (OIntr (hd 0 (q_causes (get_iq p pi)))) true (catch_of g pi pc)
          ((match f with Some f => [OpFlagUnsub f (w_of tid (tokn t))] | None => [] end) ++ [OpIntPop pi])
  | PNatX val => proc_continue g p r tid pi pc val false true [OpIntUnsub pi (w_of tid (toki t))]
  | PNew => ([], set_mode Idle r)
  end.

Definition nat_act g p r tid n pc : list op * mrest :=
  let actor := 100 + Z.of_nat n in
  let k := S (tokctr r) in
  let sleep st ops := (ops, set_mode Idle (bump 1 (set_task tid (mkT (KNat n pc st) k 0 false) r))) in
  match nth_error (nth n (g_nats g) []) pc with
  | None => ([], set_mode Idle (kill tid r))
  | Some (AWait d) => sleep 1%nat [OpPush (now p + d) (IWake tid k)]
  | Some (AAwait e) => sleep 2%nat [OpSubscribe e (w_of tid k)]
  | Some (ASet f) => sleep 3%nat [OpFlagSet f; OpPush (now p) (IWake tid k)]
  | Some a =>
      let '(ops, r1) := simple_op g p r actor (Z.of_nat pc) a in
      (ops, set_task tid (mkT (KNat n (S pc) 0) 0 0 false) r1)
  end.

Definition nat_wake (g : graph) (p : proto) r tid n pc (st : nat) : list op * mrest :=
  let actor := 100 + Z.of_nat n in
  let go ops := (ops, set_mode (Running tid) (set_task tid (mkT (KNat n (S pc) 0) 0 0 false) r)) in
  match st, nth_error (nth n (g_nats g) []) pc with
  | 1%nat, _ => go [OpEmit actor (Z.of_nat pc) [5]]
  | 2%nat, Some (AAwait e) =>
      go ((if ev_ok p e then [] else [OpDefuse e]) ++ [OpEmit actor (Z.of_nat pc) (enc (val_of p e))])
  | _, _ => go []
  end.

Definition root_start g p r tid : list op * mrest :=
  let k := S (tokctr r) in
  let r1 := set_mode Idle (bump 1 (set_task tid (mkT KRoot k 0 false) r)) in
  match g_until g with
  | UNone => ([OpEnvStart], r1)
  | UTime T => ([OpEnvStart; if T <=? now p then OpPush (now p) (IWake tid k) else OpPush T (IAfter tid k)], r1)
  | UEvent e => ([OpEnvStart; OpSubscribe e (w_of tid k)], r1)
  end.

Definition until_result g p : list Z :=
  match g_until g with
  | UEvent e => if triggered p e then 10 :: enc (val_of p e) else [11; 3]
  | _ => [10; 5]
  end.

Definition dispatch g p r (it : item) : list op * mrest :=
  let idle := ([], set_mode Idle r) in
  match it with
  | IStart tid =>
      let t := get_task r tid in
      if dead t || (is_env (kind t) && closed p) then idle else
      match kind t with
      | KRoot => root_start g p r tid
      | KCond e isall members _ _ _ =>
          cond_after p (set_mode Idle r) tid e isall members (scan (triggered p) (ev_ok p) members O)
      | KProc _ _ _ | KNat _ _ _ => ([], set_mode (Running tid) r)
      end
  | IAfter tid tok =>
      let t := get_task r tid in
      if dead t || (is_env (kind t) && closed p) || negb (Nat.eqb tok (tokn t)) then idle
      else ([OpPush (now p) (IWake tid tok)], set_mode Idle r)
  | IWake tid tok =>
      let t := get_task r tid in
      if dead t || (is_env (kind t) && closed p) || Nat.eqb tok O
         || negb (Nat.eqb tok (tokn t) || Nat.eqb tok (toki t)) then idle else
      match kind t with
      | KRoot => ([OpStop (until_result g p)], set_mode Idle (kill tid r))
      | KCond e isall members unobs obs ph =>
          let r0 := set_mode Idle r in
          if Nat.eqb ph 1 && negb (existsb (triggered p) unobs) then
            let k := S (tokctr r) in
            (map (fun m => OpSubscribe m (w_of tid k)) unobs,
             bump 1 (set_task tid (mkT (KCond e isall members unobs obs 2) k 0 false) r0))
          else
            let '(ops, r1) := cond_after p r0 tid e isall members (scan (triggered p) (ev_ok p) unobs obs) in
            ((if Nat.eqb ph 1 then [] else map (fun m => OpUnsub m (w_of tid (tokn t))) unobs) ++ ops, r1)
      | KProc pi pc st => proc_wake g p r tid t pi pc st tok
      | KNat n pc st => nat_wake g p r tid n pc st
      end
  | _ => idle
  end.

Definition decide g (m : mstate) : list op * mrest :=
  let p := pr m in let r := rs m in
  match mmode r with
  | Idle => match agenda p with
            | [] => ([], r)
            | (_, it) :: _ => ([OpPop], set_mode (Dispatch it) r)
            end
  | Dispatch it => dispatch g p r it
  | Running tid =>
      let t := get_task r tid in
      if dead t || (is_env (kind t) && closed p) then ([], set_mode Idle r) else
      match kind t with
      | KProc pi pc _ => proc_act g p r tid pi pc
      | KNat n pc _ => nat_act g p r tid n pc
      | _ => ([], set_mode Idle r)
      end
  end.

Definition micro g (m : mstate) : mstate :=
  let '(ops, r) := decide g m in mkM (exec_ops (pr m) ops) r.

Definition quiescent (m : mstate) : bool :=
  match mmode (rs m), agenda (pr m) with Idle, [] => true | _, _ => false end.

Fixpoint run g (fuel : nat) (m : mstate) : mstate :=
  match fuel with
  | O => m
  | S k => if quiescent m then m else run g k (micro g m)
  end.

(** * Initial state *)
Fixpoint all_targets (sc : list action) : list target :=
  match sc with
  | AYield t _ :: r => t :: all_targets r
  | _ :: r => all_targets r
  | [] => []
  end.

Fixpoint set_leaves (t : target) (l : list (list nat)) : list (list nat) :=
  match t with
  | TCond e _ ch => upd e (fun _ => flat_map leaves ch) (fold_left (fun l c => set_leaves c l) ch l)
  | _ => l
  end.

Definition ev_init (lv : list nat) : event := mkEv None 0 false [] [] false [] lv.

Definition init_evs g : list event :=
  map ev_init (fold_left (fun l t => set_leaves t l)
                         (flat_map (fun x => all_targets (snd x)) (g_procs g))
                         (repeat [] (g_nnodes g))).

Fixpoint seqn (a n : nat) : list nat := match n with O => [] | S k => a :: seqn (S a) k end.

Definition init g : mstate :=
  let np := length (g_procs g) in
  let ups := filter (fun i => snd (fst (proc_of g i))) (seqn 0 np) in
  let ptasks := map (fun i => mkT (KProc i 0 PNew) 0 0 false) ups in
  let nup := length ups in
  let nn := length (g_nats g) in
  (* task ids: up-front processes, then (embedded) natives with the environment at g_envpos *)
  let rest :=
    if g_emb g then
      flat_map (fun j => (if Nat.eqb j (g_envpos g) then [mkT KRoot 0 0 false] else [])
                         ++ (if Nat.ltb j nn then [mkT (KNat j 0 0) 0 0 false] else []))
               (seqn 0 (S nn))
    else [mkT KRoot 0 0 false] in
  let p0 := mkP 0 (map (fun i => (0, IStart (nup + i)%nat)) (seqn 0 (length rest)))
                (init_evs g)
                (map (fun x => mkIq (fst (fst x)) [] [] [] []) (g_procs g))
                (repeat nf0 (g_nflags g))
                false (map IStart (seqn 0 nup)) false [] (g_emb g) [] [] [] in
  mkM p0 (mkR (ptasks ++ rest) 0 Idle).

(** the result of [env.run] when the loop ran dry without a stop *)
Definition final_log g (m : mstate) : list (list Z) :=
  let p := pr m in
  if closed p || g_emb g then log p
  else log p ++ [300 :: 0 :: 0 :: until_result g p].

Definition fuel0 : nat := 60 * 100.
Definition model (g : graph) : list (list Z) := final_log g (run g fuel0 (init g)).

(** correspondence helpers *)
Fixpoint zlist_eqb (a b : list Z) : bool :=
  match a, b with
  | [], [] => true
  | x :: r, y :: s => (x =? y) && zlist_eqb r s
  | _, _ => false
  end.
Fixpoint log_eqb (a b : list (list Z)) : bool :=
  match a, b with
  | [], [] => true
  | x :: r, y :: s => zlist_eqb x y && log_eqb r s
  | _, _ => false
  end.
Fixpoint bad_from (n : nat) (l : list (graph * list (list Z))) : list nat :=
  match l with
  | [] => []
  | (g, o) :: r => if log_eqb (model g) o then bad_from (S n) r else n :: bad_from (S n) r
  end.
Definition bad_cases l := bad_from 0 l.
