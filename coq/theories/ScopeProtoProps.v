(* Proofs over ScopeProto: invariants of all reachable states of one scope instance. *)
Require Import List Bool Arith Lia.
Import ListNotations.
From Usim Require Import ScopeProto.

(** * list lemmas *)
Lemma forallb_upd : forall A (g : A -> bool) l i x,
  forallb g l = true -> g x = true -> forallb g (upd i x l) = true.
Proof.
  induction l; simpl; intros; auto. apply andb_true_iff in H as [? ?].
  destruct i; simpl; apply andb_true_iff; auto.
Qed.
Lemma forallb_nth : forall A (g : A -> bool) l i c,
  forallb g l = true -> nth_error l i = Some c -> g c = true.
Proof. intros. rewrite forallb_forall in H. apply H. eapply nth_error_In; eauto. Qed.
Lemma existsb_upd_same : forall A (g : A -> bool) l i c x,
  nth_error l i = Some c -> g x = g c -> existsb g (upd i x l) = existsb g l.
Proof.
  induction l; destruct i; simpl; intros; try discriminate.
  - inversion H; subst. now rewrite H0.
  - f_equal. eauto.
Qed.
Lemma existsb_upd_or : forall A (g : A -> bool) l i x,
  existsb g (upd i x l) = true -> g x = true \/ existsb g l = true.
Proof.
  induction l; simpl; intros; auto. destruct i; simpl in H; apply orb_true_iff in H as [?|?]; auto.
  - right. rewrite H. apply orb_true_r.
  - right. rewrite H. reflexivity.
  - apply IHl in H as [?|?]; auto. right. rewrite H. apply orb_true_r.
Qed.
Lemma forallb_imp2 : forall A (g h k : A -> bool) l,
  (forall c, g c = true -> h c = true -> k c = true) ->
  forallb g l = true -> forallb h l = true -> forallb k l = true.
Proof.
  induction l; simpl; intros; auto.
  apply andb_true_iff in H0 as [? ?]. apply andb_true_iff in H1 as [? ?]. apply andb_true_iff; auto.
Qed.
Lemma forallb_imp : forall A (g k : A -> bool) l,
  (forall c, g c = true -> k c = true) -> forallb g l = true -> forallb k l = true.
Proof. intros. apply (forallb_imp2 A g g k l); auto. Qed.
Lemma existsb_false_forallb : forall A (g : A -> bool) l,
  existsb g l = false -> forallb (fun c => negb (g c)) l = true.
Proof.
  induction l; simpl; intros; auto. apply orb_false_iff in H as [? ?]. rewrite H. simpl. auto.
Qed.
Lemma nth_error_upd : forall A l i j (x : A),
  nth_error (upd i x l) j = if Nat.eqb i j then (match nth_error l j with Some _ => Some x | None => None end)
                            else nth_error l j.
Proof.
  induction l; intros.
  - simpl. destruct j; simpl; destruct (Nat.eqb i _); reflexivity.
  - destruct i, j; simpl; auto.
Qed.

(** * the invariant *)
Definition cause_of (p : phase) : option cause :=
  match p with Closing c | Exited c _ => Some c | _ => None end.
Definition isexited (p : phase) : bool := match p with Exited _ _ => true | _ => false end.
Definition graceful (p : phase) : bool := match cause_of p with Some CGraceful => true | _ => false end.
Definition iscv (c : child) : bool := match st c with Done ClosedVolatile => true | _ => false end.
Definition isdisc (c : child) : bool := match st c with Done Discarded => true | _ => false end.
Definition closedlike (c : child) : bool :=
  match st c with Done ClosedScope | Done ClosedVolatile | Done Discarded => true | _ => false end.
Definition isclosedscope (c : child) : bool := match st c with Done ClosedScope => true | _ => false end.

(* per child, relative to the owner phase *)
Definition cinvb (p : phase) (c : child) : bool :=
  (listed c || isdone c) &&
  (if isdisc c then negb (ran c) && negb (listed c) && negb (late c) else true) &&
  (if active p then negb (closedlike c) else true) &&
  (if graceful p then vol c || (isdone c && negb (isclosedscope c)) else true) &&
  (if isexited p then isdone c else true) &&
  (match st c with Done ClosedVolatile => vol c | Done ClosedScope => negb (vol c) | _ => true end).

Definition tinv (s : state) : Prop :=
  match fired_at s with
  | Some t => match ph s with
              | Exited _ _ => exited_at s = Some t
              | Closing _ => now s = t
              | _ => now s = t /\ intr s = IScheduled
              end
  | None => intr s <> IScheduled /\ intr s <> IDelivered
  end.

Definition oinv (s : state) : Prop :=
  match ph s with Exited c o => o = outcome_of c (existsb isfailed (kids s)) | _ => True end.

Record inv (s : state) : Prop := mkInv {
  i_int : interruptable s = active (ph s);
  i_inert : active (ph s) = false -> inert (intr s) = true;
  i_kids : forallb (cinvb (ph s)) (kids s) = true;
  i_vlast : existsb iscv (kids s) = true -> forallb nv_done (kids s) = true;
  i_time : tinv s;
  i_out : oinv s
}.

Ltac inv_step H :=
  unfold step, on_child, running_only in H;
  repeat match goal with
  | H' : match ?x with _ => _ end = Some _ |- _ => destruct x eqn:?; try discriminate H'
  | H' : Some _ = Some _ |- _ => inversion H'; subst; clear H'
  end.

Ltac pbrute p := destruct p as [| | |[]|[] []].
Ltac cbrute c := destruct c as [[] [| |[]] [] [] []].

(** child-level transformations *)
Inductive cstep (p : phase) (vd : bool) (c : child) : child -> Prop :=
  | cs_start : isclosing p = false -> st c = Created -> cstep p vd c (mkChild (vol c) Running (listed c) true (late c))
  | cs_reap : isclosing p = false -> isdone c && listed c = true ->
              cstep p vd c (mkChild (vol c) (st c) false (ran c) (late c))
  | cs_step : isclosing p = false -> st c = Running -> cstep p vd c c
  | cs_fin : forall h, isclosing p = false -> st c = Running -> (h = Success \/ h = Failed \/ h = CancelledInd) ->
             cstep p vd c (fin h c)
  | cs_cancel_created : st c = Created -> cstep p vd c (set_st (Done CancelledInd) c)
  | cs_close_created : isclosing p = true -> st c = Created -> vol c && negb vd = false ->
                       cstep p vd c (set_st (Done (closedhow c)) c)
  | cs_close_running : forall d : bool, isclosing p = true -> st c = Running -> vol c && negb vd = false ->
                       cstep p vd c (fin (if d then Failed else closedhow c) c).

Lemma cstep_cinv : forall p vd c c', cstep p vd c c' -> cinvb p c = true -> cinvb p c' = true.
Proof.
  intros p vd c c' H; destruct H; intros;
    try (match goal with H : _ \/ _ |- _ => destruct H as [?|[?|?]]; subst end); try destruct d;
    destruct c as [v s0 li r la]; simpl in *; subst;
    pbrute p; simpl in *; try discriminate;
    try (destruct s0 as [| |[]]; simpl in *; try discriminate);
    destruct v, li, r, la; simpl in *; try discriminate; reflexivity.
Qed.
Lemma cstep_nvdone : forall p vd c c', cstep p vd c c' -> nv_done c = true -> nv_done c' = true.
Proof.
  intros p vd c c' H; destruct H; intros;
    cbrute c; simpl in *; try discriminate; reflexivity.
Qed.
Lemma cstep_cv : forall p vd c c', cstep p vd c c' -> iscv c' = true -> iscv c = true \/ vd = true.
Proof.
  intros p vd c c' H; destruct H; intros;
    try (match goal with H : _ \/ _ |- _ => destruct H as [?|[?|?]]; subst end); try destruct d; destruct vd; auto;
    cbrute c; simpl in *; try discriminate; auto.
Qed.
Lemma cstep_done : forall p vd c c', cstep p vd c c' -> isdone c = true ->
  st c' = st c /\ vol c' = vol c /\ ran c' = ran c /\ late c' = late c.
Proof.
  intros p vd c c' H; destruct H; intros; auto;
    cbrute c; simpl in *; try discriminate; auto.
Qed.

(** shape of a step as far as the children are concerned *)
Definition spawned (s : state) (v : bool) : child :=
  if interruptable s then accepted v (match ph s with Body => false | _ => true end) else refused v.

Lemma kids_sched_cs : forall s, kids (sched_cs s) = kids s.
Proof. intros; unfold sched_cs; destruct (interruptable s); reflexivity. Qed.
Lemma ph_sched_cs : forall s, ph (sched_cs s) = ph s.
Proof. intros; unfold sched_cs; destruct (interruptable s); reflexivity. Qed.

Lemma step_shape : forall s l s', step s l = Some s' ->
  kids s' = kids s \/
  (exists v, l = Spawn v /\ s' = set_kids (kids s ++ [spawned s v]) s) \/
  (exists i c c', nth_error (kids s) i = Some c /\ kids s' = upd i c' (kids s) /\ ph s' = ph s /\
                  cstep (ph s) (forallb nv_done (kids s)) c c').
Proof.
  intros s l s' H; destruct l;
    [inversion H; right; left; eexists; split; reflexivity|..]; inv_step H;
    try match goal with |- context [if ?x then _ else _] => destruct x eqn:? end;
    try (left; simpl; reflexivity);
    try (right; right; do 3 eexists; split; [eassumption|];
         split; [simpl; rewrite ?kids_sched_cs; reflexivity|];
         split; [simpl; rewrite ?ph_sched_cs; (reflexivity || assumption)|]).
  all: try solve [ eapply cs_start; eauto | eapply cs_reap; eauto | eapply cs_step; eauto
                 | eapply cs_fin; eauto | eapply cs_cancel_created; eauto
                 | eapply cs_close_created; simpl; eauto | apply (cs_close_running _ _ _ true); simpl; auto | apply (cs_close_running _ _ _ false); simpl; auto ].
Qed.

Lemma inert_unsub : forall i, inert (unsub i) = true.
Proof. destruct i; reflexivity. Qed.

Ltac prep :=
  try match goal with |- context [if ?x then _ else _] => destruct x eqn:? end;
  unfold sched_cs in *;
  try match goal with |- context [if ?x then _ else _] => destruct x eqn:? end;
  simpl in *;
  repeat match goal with H : ph _ = _ |- _ => rewrite H in *; clear H end; simpl in *.

Lemma step_A : forall s l s', inv s -> step s l = Some s' ->
  interruptable s' = active (ph s') /\ (active (ph s') = false -> inert (intr s') = true).
Proof.
  intros s l s' [A1 A2 _ _ _ _] H; destruct l; inv_step H; prep;
    rewrite ?inert_unsub; auto; split; intros; try congruence; auto;
    try match goal with H : intr _ = _ |- _ => rewrite H end; auto.
Qed.

Lemma unsub_not : forall i, i <> IScheduled -> i <> IDelivered -> unsub i <> IScheduled /\ unsub i <> IDelivered.
Proof. destruct i; simpl; intros; split; congruence. Qed.

Lemma step_T : forall s l s', inv s -> step s l = Some s' -> tinv s'.
Proof.
  intros s l s' [A1 A2 _ _ T _] H; unfold tinv in *; destruct l; inv_step H; prep;
    try assumption;
    destruct (fired_at s) eqn:?; simpl in *;
    try (destruct (ph s) eqn:?; simpl in *);
    try (apply unsub_not; tauto);
    try match goal with H : intr _ = _ |- _ => rewrite H in * end;
    try solve [intuition (try congruence)].
Qed.

Lemma cinv_W1 : forall p p' c, active p = true -> isexited p' = false -> graceful p' = false ->
  cinvb p c = true -> cinvb p' c = true.
Proof.
  intros p p' c; pbrute p; simpl; try discriminate; intros _; pbrute p'; simpl; try discriminate; intros _ _;
    cbrute c; simpl; intros; try discriminate; reflexivity.
Qed.
Lemma cinv_W2 : forall p c, active p = true -> cinvb p c = true -> negb (pending_nv c) = true ->
  cinvb (Closing CGraceful) c = true.
Proof. intros p c; pbrute p; simpl; try discriminate; intros _; cbrute c; simpl; intros; try discriminate; reflexivity. Qed.
Lemma cinv_W3 : forall c0 o c, cinvb (Closing c0) c = true -> closed_ok c = true -> cinvb (Exited c0 o) c = true.
Proof. intros c0 o c; destruct c0; cbrute c; simpl; intros; try discriminate; reflexivity. Qed.
Lemma cinv_spawn : forall p v, cinvb p (if active p then accepted v (match p with Body => false | _ => true end) else refused v) = true.
Proof. intros p v; pbrute p; destruct v; reflexivity. Qed.

Lemma step_K : forall s l s', inv s -> step s l = Some s' -> forallb (cinvb (ph s')) (kids s') = true.
Proof.
  intros s l s' [A1 A2 K _ _ _] H.
  destruct (step_shape _ _ _ H) as [E|[(v&->&->)|(i&c&c'&N&E&P&CS)]].
  - rewrite E. destruct l; inv_step H; prep; try assumption;
      try solve [eapply forallb_imp; [|exact K]; intros; eapply cinv_W1; [| | |eassumption]; solve [reflexivity|assumption]];
      try solve [eapply forallb_imp2; [|exact K|eapply existsb_false_forallb; eassumption];
                 simpl; intros; eapply cinv_W2; eauto; reflexivity];
      try solve [eapply forallb_imp2; [|exact K|eassumption]; simpl; intros; eapply cinv_W3; eauto].
  - simpl. rewrite forallb_app, K. simpl. unfold spawned. rewrite A1, cinv_spawn. reflexivity.
  - rewrite E, P. apply forallb_upd; auto. eapply cstep_cinv; eauto. eapply forallb_nth; eauto.
Qed.

Lemma existsb_nth : forall A (g : A -> bool) l i c, nth_error l i = Some c -> g c = true -> existsb g l = true.
Proof. intros. apply existsb_exists. exists c. split; auto. eapply nth_error_In; eauto. Qed.

Lemma no_cv_active : forall p l, active p = true -> forallb (cinvb p) l = true -> existsb iscv l = false.
Proof.
  intros p l Ha; induction l; simpl; intros; auto. apply andb_true_iff in H as [? ?].
  rewrite IHl by auto. rewrite orb_false_r.
  pbrute p; try discriminate; cbrute a; simpl in *; try discriminate; reflexivity.
Qed.

Lemma step_V : forall s l s', inv s -> step s l = Some s' ->
  existsb iscv (kids s') = true -> forallb nv_done (kids s') = true.
Proof.
  intros s l s' [A1 A2 K V _ _] H.
  destruct (step_shape _ _ _ H) as [E|[(v&->&->)|(i&c&c'&N&E&P&CS)]].
  - rewrite E; exact V.
  - simpl. rewrite existsb_app, forallb_app. simpl. unfold spawned. destruct (interruptable s) eqn:I.
    + rewrite (no_cv_active (ph s)); auto. simpl. discriminate.
    + simpl. rewrite !orb_false_r, andb_true_r. intros X. rewrite V; auto. destruct v; reflexivity.
  - rewrite E. intros X.
    assert (VD : forallb nv_done (kids s) = true).
    { apply existsb_upd_or in X as [X|X]; auto.
      destruct (cstep_cv _ _ _ _ CS X); auto. apply V. eapply existsb_nth; eauto. }
    apply forallb_upd; auto. eapply cstep_nvdone; eauto. eapply forallb_nth; eauto.
Qed.

Lemma cinv_exited_done : forall c0 o c, cinvb (Exited c0 o) c = true -> isdone c = true.
Proof. intros c0 o c; destruct c0; cbrute c; simpl; intros; try discriminate; reflexivity. Qed.

Lemma step_O : forall s l s', inv s -> step s l = Some s' -> oinv s'.
Proof.
  intros s l s' [A1 A2 K _ _ O] H. unfold oinv in *.
  destruct (step_shape _ _ _ H) as [E|[(v&->&->)|(i&c&c'&N&E&P&CS)]].
  - rewrite E. destruct l; inv_step H; prep; auto.
  - simpl. destruct (ph s); auto. rewrite existsb_app. simpl.
    replace (isfailed (spawned s v)) with false; [rewrite !orb_false_r; auto|].
    unfold spawned; destruct (interruptable s); reflexivity.
  - rewrite E, P. destruct (ph s) eqn:Q; auto.
    assert (D : isdone c = true).
    { eapply cinv_exited_done. eapply forallb_nth; eauto. }
    destruct (cstep_done _ _ _ _ CS D) as (S1&_).
    erewrite existsb_upd_same; eauto. unfold isfailed. rewrite S1. reflexivity.
Qed.

Lemma inv_init : forall k, inv (init k).
Proof.
  intros k; constructor; simpl; auto; try discriminate.
  - unfold tinv; simpl. destruct k as [|[]]; simpl; auto; split; discriminate.
  - exact I.
Qed.
Lemma step_inv : forall s l s', inv s -> step s l = Some s' -> inv s'.
Proof.
  intros s l s' I H. destruct (step_A _ _ _ I H). constructor; auto.
  - eapply step_K; eauto.
  - eapply step_V; eauto.
  - eapply step_T; eauto.
  - eapply step_O; eauto.
Qed.
Lemma reachable_inv : forall k s, reachable k s -> inv s.
Proof. induction 1; [apply inv_init|eapply step_inv; eauto]. Qed.

Lemma run_app : forall l1 l2 s, run s (l1 ++ l2) = match run s l1 with Some s1 => run s1 l2 | None => None end.
Proof. induction l1; simpl; intros; auto. destruct (step s a); auto. Qed.

(** * C04 *)
Lemma all_done_forall : forall c0 o l, forallb (cinvb (Exited c0 o)) l = true -> Forall (fun x => isdone x = true) l.
Proof.
  intros. apply Forall_forall. intros x Hx. rewrite forallb_forall in H.
  eapply cinv_exited_done; eauto.
Qed.

Lemma length_upd : forall A l i (x : A), length (upd i x l) = length l.
Proof. induction l; destruct i; simpl; auto. Qed.

Definition frame (l l' : list child) : Prop :=
  length l <= length l' /\
  (forall i x, nth_error l i = Some x ->
     exists x', nth_error l' i = Some x' /\ st x' = st x /\ ran x' = ran x /\ vol x' = vol x) /\
  (forall i x', nth_error l' i = Some x' -> length l <= i -> st x' = Done Discarded /\ ran x' = false).
Lemma frame_same : forall l, frame l l.
Proof.
  intros l; split; [lia|split]; intros; eauto.
  assert (nth_error l i <> None) by congruence. apply nth_error_Some in H1. lia.
Qed.
Lemma frame_app : forall l v, frame l (l ++ [refused v]).
Proof.
  intros l v; split; [rewrite app_length; lia|split]; intros.
  - exists x. rewrite nth_error_app1; auto. apply nth_error_Some. congruence.
  - rewrite nth_error_app2 in H by auto. destruct (i - length l) as [|[|n]]; simpl in H; try discriminate.
    inversion H; auto.
Qed.
Lemma frame_upd : forall l i c c', nth_error l i = Some c -> st c' = st c -> ran c' = ran c -> vol c' = vol c ->
  frame l (upd i c' l).
Proof.
  intros l i c c' N S1 S2 S3; split; [rewrite length_upd; lia|split]; intros j x; rewrite nth_error_upd.
  - intros Hx. destruct (Nat.eqb_spec i j).
    + subst. rewrite Hx. exists c'. rewrite N in Hx. inversion Hx; subst. auto.
    + exists x; auto.
  - intros Hx L. assert (nth_error l j = None) by (apply nth_error_None; lia).
    rewrite H in Hx. destruct (Nat.eqb i j); discriminate.
Qed.

(* after the exit: only refused spawns, reaping of never-started tasks and time; nothing else is enabled *)
Lemma exited_step : forall s l s' c o, inv s -> ph s = Exited c o -> step s l = Some s' ->
  ph s' = Exited c o /\ cwork s' = cwork s /\ bsteps s' = bsteps s /\ inert (intr s') = true /\
  frame (kids s) (kids s').
Proof.
  intros s l s' c o I P H.
  pose proof (i_kids _ I) as K. pose proof (i_inert _ I) as A2. pose proof (i_int _ I) as A1. rewrite P in *. simpl in *.
  specialize (A2 eq_refl).
  assert (ND : forall i x, nth_error (kids s) i = Some x -> isdone x = true).
  { intros. eapply cinv_exited_done. eapply forallb_nth; eauto. }
  destruct l; inv_step H; prep; try congruence;
    try (match goal with N : nth_error _ _ = Some ?c, Q : st ?c = _ |- _ =>
           apply ND in N; unfold isdone in N; rewrite Q in N; discriminate end);
    (split; [|split; [|split; [|split]]]); auto; try apply frame_same; try apply frame_app;
    try (eapply frame_upd; eauto; reflexivity);
    try (match goal with H : intr _ = _ |- _ => rewrite H; reflexivity end).
Qed.

Lemma frame_trans : forall l1 l2 l3, frame l1 l2 -> frame l2 l3 -> frame l1 l3.
Proof.
  intros l1 l2 l3 (L1&F1&N1) (L2&F2&N2); split; [lia|split]; intros.
  - destruct (F1 _ _ H) as (x1&X1&?&?&?). destruct (F2 _ _ X1) as (x2&X2&?&?&?).
    exists x2; repeat split; congruence.
  - destruct (nth_error l2 i) eqn:E.
    + destruct (N1 _ _ E H0). destruct (F2 _ _ E) as (x2&X2&?&?&?).
      assert (x2 = x') by congruence. subst. split; congruence.
    + apply nth_error_None in E. eauto.
Qed.

Lemma exited_enabled : forall s l s' c o, inv s -> ph s = Exited c o -> step s l = Some s' ->
  (exists v, l = Spawn v) \/ (exists i, l = ChildReap i) \/ l = Tick.
Proof.
  intros s l s' c o I P H.
  pose proof (i_kids _ I) as K. pose proof (i_inert _ I) as A2. rewrite P in *. simpl in *.
  specialize (A2 eq_refl).
  assert (ND : forall i x, nth_error (kids s) i = Some x -> isdone x = true).
  { intros. eapply cinv_exited_done. eapply forallb_nth; eauto. }
  destruct l; eauto; inv_step H; prep; try congruence;
    try (match goal with N : nth_error _ _ = Some ?c, Q : st ?c = _ |- _ =>
           apply ND in N; unfold isdone in N; rewrite Q in N; discriminate end).
Qed.

Lemma exited_run : forall ls s s' c o, inv s -> ph s = Exited c o -> run s ls = Some s' ->
  ph s' = Exited c o /\ cwork s' = cwork s /\ bsteps s' = bsteps s /\ inert (intr s') = true /\
  frame (kids s) (kids s').
Proof.
  induction ls; simpl; intros s s' c o I P H.
  - inversion H; subst. (split; [|split; [|split; [|split]]]); auto; try apply frame_same.
    apply (i_inert _ I). rewrite P; reflexivity.
  - destruct (step s a) eqn:E; [|discriminate].
    destruct (exited_step _ _ _ _ _ I P E) as (P1&W1&B1&_&F1).
    destruct (IHls _ _ _ _ (step_inv _ _ _ I E) P1 H) as (P2&W2&B2&I2&F2).
    (split; [|split; [|split; [|split]]]); auto; try congruence. eapply frame_trans; eauto.
Qed.

Theorem contained_thm : forall k s c o, reachable k s -> ph s = Exited c o ->
  Forall (fun x => isdone x = true) (kids s) /\
  (forall i, step s (ChildStart i) = None /\ step s (ChildStep i) = None /\ step s (ChildReturn i) = None /\
             step s (ChildFail i) = None /\ step s (ChildCancel i) = None /\
             forall d, step s (CloseChild i d) = None) /\
  (forall v, step s (Spawn v) = Some (set_kids (kids s ++ [refused v]) s)) /\
  (forall ls s', run s ls = Some s' ->
     ph s' = Exited c o /\ cwork s' = cwork s /\ bsteps s' = bsteps s /\ frame (kids s) (kids s')).
Proof.
  intros k s c o R P. pose proof (reachable_inv _ _ R) as I.
  assert (D : forall l, (forall v, l <> Spawn v) -> (forall i, l <> ChildReap i) -> l <> Tick -> step s l = None).
  { intros l N1 N2 N3. destruct (step s l) eqn:E; auto.
    destruct (exited_enabled _ _ _ _ _ I P E) as [(?&?)|[(?&?)|?]]; subst; exfalso;
      [eapply N1|eapply N2|apply N3]; reflexivity. }
  split; [|split; [|split]].
  - eapply all_done_forall. rewrite <- P. apply (i_kids _ I).
  - intros i; repeat split; intros; apply D; intros; discriminate.
  - intros v. simpl. rewrite (i_int _ I), P. reflexivity.
  - intros ls s' H. destruct (exited_run _ _ _ _ _ I P H) as (?&?&?&?&?). auto.
Qed.

Lemma in_cinv : forall s x, inv s -> In x (kids s) -> cinvb (ph s) x = true.
Proof. intros s x I H. pose proof (i_kids _ I) as K. rewrite forallb_forall in K. auto. Qed.

Theorem graceful_complete_thm : forall k s o x, reachable k s -> ph s = Exited CGraceful o ->
  In x (kids s) -> vol x = false ->
  st x = Done Success \/ st x = Done CancelledInd \/ st x = Done Discarded \/ (st x = Done Failed /\ o = ChildExc).
Proof.
  intros k s o x R P X V. pose proof (reachable_inv _ _ R) as I.
  pose proof (in_cinv _ _ I X) as C. pose proof (i_out _ I) as O. unfold oinv in O. rewrite P in *.
  assert (F : isfailed x = true -> o = ChildExc).
  { intros F. rewrite O. replace (existsb isfailed (kids s)) with true; auto.
    symmetry. apply existsb_exists. eauto. }
  revert C F. cbrute x; simpl in *; try discriminate; intros C F; try discriminate; auto 8.
Qed.

Theorem late_children_awaited_thm : forall k s o x, reachable k s -> ph s = Exited CGraceful o ->
  In x (kids s) -> vol x = false -> late x = true ->
  st x = Done Success \/ st x = Done CancelledInd \/ (st x = Done Failed /\ o = ChildExc).
Proof.
  intros k s o x R P X V L. destruct (graceful_complete_thm _ _ _ _ R P X V) as [?|[?|[?|?]]]; auto.
  pose proof (in_cinv _ _ (reachable_inv _ _ R) X) as C. exfalso. revert C.
  cbrute x; simpl in *; discriminate.
Qed.

Theorem late_spawn_accepted_thm : forall k s v, reachable k s -> ph s = SetDone \/ ph s = AwaitChildren ->
  step s (Spawn v) = Some (set_kids (kids s ++ [accepted v true]) s).
Proof.
  intros k s v R P. simpl. rewrite (i_int _ (reachable_inv _ _ R)). destruct P as [P|P]; rewrite P; reflexivity.
Qed.

Theorem await_blocks_thm : forall k s x, reachable k s -> ph s = SetDone \/ ph s = AwaitChildren ->
  In x (kids s) -> vol x = false -> isdone x = false -> step s AwaitStep = Some (set_ph AwaitChildren s).
Proof.
  intros k s x R P X V D. pose proof (in_cinv _ _ (reachable_inv _ _ R) X) as C.
  assert (E : existsb pending_nv (kids s) = true).
  { apply existsb_exists. exists x; split; auto. revert C. cbrute x; simpl in *; try discriminate; auto.
    all: destruct P as [P|P]; rewrite P; simpl; discriminate. }
  simpl. destruct P as [P|P]; rewrite P, E; reflexivity.
Qed.

Lemma cstep_cv2 : forall p vd c c', cstep p vd c c' -> iscv c' = true ->
  iscv c = true \/ (isclosing p = true /\ vd = true /\ isdone c = false).
Proof.
  intros p vd c c' H; destruct H; intros;
    try (match goal with H : _ \/ _ |- _ => destruct H as [?|[?|?]]; subst end); try destruct d; destruct vd; auto;
    cbrute c; simpl in *; try discriminate; auto.
Qed.

Theorem volatile_last_step_thm : forall k s l s' i x', reachable k s -> step s l = Some s' ->
  nth_error (kids s') i = Some x' -> st x' = Done ClosedVolatile ->
  (exists x, nth_error (kids s) i = Some x /\ st x = Done ClosedVolatile) \/
  (exists c x, ph s = Closing c /\ nth_error (kids s) i = Some x /\ isdone x = false /\ vol x = true /\
               forallb nv_done (kids s) = true).
Proof.
  intros k s l s' i x' R H N S. pose proof (reachable_inv _ _ R) as I.
  destruct (step_shape _ _ _ H) as [E|[(v&->&->)|(j&c&c'&Nj&E&P&CS)]].
  - left. rewrite E in N. eauto.
  - simpl in N. left. destruct (nth_error (kids s) i) eqn:Q.
    + rewrite nth_error_app1 in N by (apply nth_error_Some; congruence). exists x'. split; congruence.
    + apply nth_error_None in Q. rewrite nth_error_app2 in N by auto.
      destruct (i - length (kids s)) as [|[|n]]; simpl in N; try discriminate.
      inversion N; subst. unfold spawned in S. destruct (interruptable s); discriminate.
  - rewrite E, nth_error_upd in N. destruct (Nat.eqb_spec j i).
    + subst. rewrite Nj in N. inversion N; subst.
      assert (X : iscv x' = true) by (unfold iscv; rewrite S; reflexivity).
      destruct (cstep_cv2 _ _ _ _ CS X) as [Y|(Y1&Y2&Y3)].
      * left. exists c. split; auto. unfold iscv in Y. destruct (st c) as [| |[]]; try discriminate; auto.
      * right. destruct (ph s) eqn:Q; try discriminate. exists c0, c. repeat split; auto.
        pose proof (forallb_nth _ _ _ _ _ (i_kids _ I) Nj) as C. clear - CS S Y3. 
        inversion CS; subst; simpl in *; try discriminate; cbrute c; simpl in *; try discriminate; auto;
          try (match goal with H : _ \/ _ |- _ => destruct H as [?|[?|?]]; subst; discriminate end);
          destruct d; discriminate.
    + left. eauto.
Qed.

Theorem volatile_last_thm : forall k s x, reachable k s -> In x (kids s) -> st x = Done ClosedVolatile ->
  vol x = true /\ active (ph s) = false /\ forall y, In y (kids s) -> vol y = false -> isdone y = true.
Proof.
  intros k s x R X S. pose proof (reachable_inv _ _ R) as I. pose proof (in_cinv _ _ I X) as C.
  assert (E : existsb iscv (kids s) = true).
  { apply existsb_exists. exists x; split; auto. unfold iscv; rewrite S; reflexivity. }
  pose proof (i_vlast _ I E) as V. rewrite forallb_forall in V.
  split; [|split].
  - revert C. unfold cinvb. rewrite S. intros C. repeat (apply andb_true_iff in C as [C ?]). auto.
  - destruct (active (ph s)) eqn:A; auto. rewrite (no_cv_active _ _ A (i_kids _ I)) in E. discriminate.
  - intros y Y Vy. specialize (V _ Y). unfold nv_done in V. rewrite Vy in V. exact V.
Qed.

(* a finished child never changes again (only its list membership) *)
Lemma done_stable : forall s l s' i x, step s l = Some s' -> nth_error (kids s) i = Some x -> isdone x = true ->
  exists x', nth_error (kids s') i = Some x' /\ st x' = st x /\ ran x' = ran x /\ vol x' = vol x.
Proof.
  intros s l s' i x H N D.
  destruct (step_shape _ _ _ H) as [E|[(v&->&->)|(j&c&c'&Nj&E&P&CS)]].
  - rewrite E. eauto.
  - simpl. exists x. rewrite nth_error_app1; auto. apply nth_error_Some; congruence.
  - rewrite E, nth_error_upd. destruct (Nat.eqb_spec j i).
    + subst. rewrite N. rewrite Nj in N. inversion N; subst.
      destruct (cstep_done _ _ _ _ CS D) as (?&?&?&?). eauto.
    + eauto.
Qed.
Lemma done_stable_run : forall ls s s' i x, run s ls = Some s' -> nth_error (kids s) i = Some x -> isdone x = true ->
  exists x', nth_error (kids s') i = Some x' /\ st x' = st x /\ ran x' = ran x /\ vol x' = vol x.
Proof.
  induction ls; simpl; intros s s' i x H N D.
  - inversion H; subst; eauto.
  - destruct (step s a) eqn:E; [|discriminate].
    destruct (done_stable _ _ _ _ _ E N D) as (x1&N1&S1&R1&V1).
    assert (D1 : isdone x1 = true) by (unfold isdone in *; rewrite S1; auto).
    destruct (IHls _ _ _ _ H N1 D1) as (x2&?&?&?&?). exists x2. repeat split; congruence.
Qed.

Theorem closed_scope_refuses_thm : forall k s, reachable k s -> active (ph s) = false ->
  interruptable s = false /\
  (forall v, step s (Spawn v) = Some (set_kids (kids s ++ [refused v]) s)) /\
  (forall v ls s', run (set_kids (kids s ++ [refused v]) s) ls = Some s' ->
     exists x', nth_error (kids s') (length (kids s)) = Some x' /\ st x' = Done Discarded /\ ran x' = false).
Proof.
  intros k s R A. pose proof (i_int _ (reachable_inv _ _ R)) as A1. rewrite A in A1.
  split; auto. split.
  - intros v. simpl. rewrite A1. reflexivity.
  - intros v ls s' H.
    destruct (done_stable_run ls _ _ (length (kids s)) (refused v) H) as (x'&?&?&?&?); eauto.
    simpl. rewrite nth_error_app2, Nat.sub_diag; auto.
Qed.

Theorem discarded_never_runs_thm : forall k s i x, reachable k s -> nth_error (kids s) i = Some x ->
  st x = Done Discarded ->
  ran x = false /\ listed x = false /\
  step s (ChildStart i) = None /\ step s (ChildReap i) = None /\ step s (ChildStep i) = None /\
  step s (ChildReturn i) = None /\ step s (ChildFail i) = None /\ step s (ChildCancel i) = None.
Proof.
  intros k s i x R N S. pose proof (reachable_inv _ _ R) as I.
  pose proof (forallb_nth _ _ _ _ _ (i_kids _ I) N) as C.
  assert (ran x = false /\ listed x = false).
  { revert C. cbrute x; simpl in *; try discriminate; auto. }
  destruct H as [H1 H2]. unfold step, on_child, running_only. rewrite N, S. unfold isdone. rewrite S, H2.
  simpl. destruct (isclosing (ph s)); auto 10.
Qed.

(** * C07 *)
Lemma step_mono : forall s l s', step s l = Some s' ->
  (ph s <> Body -> bsteps s' = bsteps s /\ ph s' <> Body) /\
  (forall c, cause_of (ph s) = Some c -> cause_of (ph s') = Some c) /\
  (active (ph s) = false -> active (ph s') = false).
Proof.
  intros s l s' H; destruct l; inv_step H; prep; repeat split; intros; simpl in *; try congruence; auto;
    destruct (ph s); simpl in *; discriminate.
Qed.
Lemma run_mono : forall ls s s', run s ls = Some s' ->
  (ph s <> Body -> bsteps s' = bsteps s /\ ph s' <> Body) /\
  (forall c, cause_of (ph s) = Some c -> cause_of (ph s') = Some c) /\
  (active (ph s) = false -> active (ph s') = false).
Proof.
  induction ls; simpl; intros s s' H.
  - inversion H; subst; auto.
  - destruct (step s a) eqn:E; [|discriminate].
    destruct (step_mono _ _ _ E) as (B1&C1&A1). destruct (IHls _ _ H) as (B2&C2&A2).
    repeat split; intros; auto.
    + destruct (B1 H0). destruct (B2 H2). congruence.
    + destruct (B1 H0). destruct (B2 H2). auto.
Qed.

Lemma fired_stable : forall s l s' t, inv s -> step s l = Some s' -> fired_at s = Some t -> fired_at s' = Some t.
Proof.
  intros s l s' t I H F. pose proof (i_time _ I) as T. pose proof (i_inert _ I) as A2.
  unfold tinv in T. rewrite F in T.
  destruct l; inv_step H; prep; auto.
  exfalso. destruct (ph s); simpl in *; try (destruct T; discriminate); specialize (A2 eq_refl); discriminate.
Qed.
Lemma fired_stable_run : forall ls s s' t, inv s -> run s ls = Some s' -> fired_at s = Some t -> fired_at s' = Some t.
Proof.
  induction ls; simpl; intros s s' t I H F.
  - inversion H; subst; auto.
  - destruct (step s a) eqn:E; [|discriminate].
    eapply IHls; [eapply step_inv; eauto|eauto|eapply fired_stable; eauto].
Qed.

Theorem fire_schedules_thm : forall s, intr s = Subscribed ->
  step s Fire = Some (set_fired (set_intr IScheduled s)).
Proof. intros s H. simpl. rewrite H. reflexivity. Qed.

Theorem scheduled_now_thm : forall k s, reachable k s -> intr s = IScheduled ->
  active (ph s) = true /\ fired_at s = Some (now s) /\ step s Tick = None /\
  step s DeliverInterrupt = Some (set_intr IDelivered (enter_closing COwnInterrupt s)).
Proof.
  intros k s R S. pose proof (reachable_inv _ _ R) as I.
  pose proof (i_time _ I) as T. pose proof (i_inert _ I) as A2. unfold tinv in T.
  assert (A : active (ph s) = true).
  { destruct (active (ph s)); auto. specialize (A2 eq_refl). rewrite S in A2. discriminate. }
  split; auto. split; [|split].
  - destruct (fired_at s); [|destruct T; congruence].
    destruct (ph s); simpl in *; try discriminate; destruct T; congruence.
  - simpl. rewrite S. destruct (isclosing (ph s)); auto. destruct (cs s); auto.
  - simpl. rewrite A, S. reflexivity.
Qed.

Theorem exit_same_step_thm : forall k s t, reachable k s -> fired_at s = Some t ->
  (isexited (ph s) = false /\ now s = t) \/ (exists c o, ph s = Exited c o /\ exited_at s = Some t).
Proof.
  intros k s t R F. pose proof (i_time _ (reachable_inv _ _ R)) as T. unfold tinv in T. rewrite F in T.
  destruct (ph s) eqn:P; simpl; try (left; split; [reflexivity|tauto]); eauto.
Qed.

Theorem until_exit_thm : forall k s s1 ls s2, reachable k s ->
  step s DeliverInterrupt = Some s1 -> run s1 ls = Some s2 ->
  fired_at s = Some (now s) /\ bsteps s2 = bsteps s /\
  ((isexited (ph s2) = false /\ now s2 = now s /\ ph s2 = Closing COwnInterrupt) \/
   (exists o, ph s2 = Exited COwnInterrupt o /\ exited_at s2 = Some (now s))).
Proof.
  intros k s s1 ls s2 R H1 H2. pose proof (reachable_inv _ _ R) as I.
  assert (S : intr s = IScheduled /\ active (ph s) = true).
  { simpl in H1. destruct (active (ph s)); [|discriminate]. destruct (intr s); try discriminate. auto. }
  destruct S as [S A]. destruct (scheduled_now_thm _ _ R S) as (_&F&_&D).
  rewrite D in H1. inversion H1; subst s1. clear H1.
  assert (R2 : reachable k s2).
  { eapply reachable_run; [|exact H2]. eapply r_step; eauto. }
  destruct (run_mono _ _ _ H2) as (B&C&_). simpl in B, C.
  destruct B as [B _]; [discriminate|]. specialize (C _ eq_refl).
  assert (F2 : fired_at s2 = Some (now s)).
  { eapply fired_stable_run; [|exact H2|exact F]. eapply step_inv; eauto. }
  split; auto. split; auto.
  destruct (exit_same_step_thm _ _ _ R2 F2) as [(E&N)|(c&o&P&X)].
  - left. split; auto. split; auto. destruct (ph s2); simpl in *; try discriminate. congruence.
  - right. rewrite P in C. simpl in C. inversion C; subst. eauto.
Qed.

Theorem until_no_raise_thm : forall k s c o, reachable k s -> ph s = Exited c o ->
  c = CGraceful \/ c = COwnCancel \/ c = COwnInterrupt ->
  o = (if existsb isfailed (kids s) then ChildExc else NoExc) /\
  ((forall x, In x (kids s) -> st x <> Done Failed) -> o = NoExc).
Proof.
  intros k s c o R P C. pose proof (i_out _ (reachable_inv _ _ R)) as O. unfold oinv in O. rewrite P in O.
  assert (o = if existsb isfailed (kids s) then ChildExc else NoExc).
  { rewrite O. destruct C as [?|[?|?]]; subst c; reflexivity. }
  split; auto. intros N. rewrite H. destruct (existsb isfailed (kids s)) eqn:E; auto.
  apply existsb_exists in E as (x&X&Fx). exfalso. apply (N x X).
  unfold isfailed in Fx. destruct (st x) as [| |[]]; try discriminate. reflexivity.
Qed.

Theorem until_inert_after_thm : forall k s ls s', reachable k s -> active (ph s) = false ->
  run s ls = Some s' ->
  active (ph s') = false /\ inert (intr s') = true /\ step s' DeliverInterrupt = None /\ step s' Fire = None.
Proof.
  intros k s ls s' R A H. destruct (run_mono _ _ _ H) as (_&_&A'). specialize (A' A).
  pose proof (i_inert _ (reachable_inv _ _ (reachable_run _ _ _ _ R H)) A') as N.
  repeat split; auto; simpl.
  - rewrite A'. reflexivity.
  - destruct (intr s'); auto; discriminate.
Qed.

Theorem already_true_on_entry_thm :
  intr (init (Until true)) = IScheduled /\ fired_at (init (Until true)) = Some 0 /\
  step (init (Until true)) Tick = None /\
  exists s', step (init (Until true)) DeliverInterrupt = Some s' /\ ph s' = Closing COwnInterrupt /\ bsteps s' = 0.
Proof. repeat split. eexists; repeat split. Qed.

(** * concrete reachable states (non-vacuity) *)
Lemma reachable_of_run : forall k ls s, run (init k) ls = Some s -> reachable k s.
Proof. intros. eapply reachable_run; [apply r_init|eauto]. Qed.

Definition summary (o : option state) :=
  match o with
  | Some s => Some (ph s, map (fun c => (vol c, st c, listed c, ran c, late c)) (kids s), intr s,
                    (bsteps s, now s, fired_at s, exited_at s))
  | None => None
  end.

Definition ex_graceful : list label :=
  [Spawn false; Spawn true; ChildStart 0; ChildStart 1; BodyStep; BodyReturn; Spawn false; AwaitStep;
   ChildStart 2; ChildReturn 0; AwaitStep; ChildCancel 2; AwaitStep; CloseChild 1 false; FinishClose;
   Spawn false; Tick].
Example ex_graceful_ok : summary (run (init Plain) ex_graceful) =
  Some (Exited CGraceful NoExc,
        [(false, Done Success, false, true, false); (true, Done ClosedVolatile, false, true, false);
         (false, Done CancelledInd, false, true, true); (false, Done Discarded, false, false, false)],
        NoIntr, (1, 1, None, Some 0)).
Proof. vm_compute. reflexivity. Qed.
(* the volatile child cannot be closed, and the block cannot be left, while child 2 (late) is alive *)
Example ex_graceful_blocked :
  summary (run (init Plain) (firstn 11 ex_graceful ++ [AwaitStep])) =
  summary (run (init Plain) (firstn 11 ex_graceful)) /\
  run (init Plain) (firstn 11 ex_graceful ++ [CloseChild 1 false]) = None /\
  run (init Plain) (ex_graceful ++ [ChildStart 3]) = None.
Proof. vm_compute. auto. Qed.

Definition ex_until : list label :=
  [Spawn false; Spawn true; ChildStart 0; Tick; BodyStep; Fire; BodyStep; DeliverInterrupt;
   CloseChild 0 false; CloseChild 1 false; FinishClose; ChildReap 1; Tick].
Example ex_until_ok : summary (run (init (Until false)) ex_until) =
  Some (Exited COwnInterrupt NoExc,
        [(false, Done ClosedScope, false, true, false); (true, Done ClosedVolatile, false, false, false)],
        IDelivered, (2, 2, Some 1, Some 1)).
Proof. vm_compute. reflexivity. Qed.
Example ex_until_no_tick_while_scheduled :
  run (init (Until false)) [Fire; Tick] = None /\ run (init (Until true)) [Tick] = None /\
  run (init (Until false)) (firstn 8 ex_until ++ [CloseChild 1 false]) = None.
Proof. vm_compute. auto. Qed.

Definition ex_fail : list label :=
  [Spawn false; Spawn false; ChildStart 0; BodyReturn; AwaitStep; ChildFail 0; DeliverCancelSelf;
   CloseChild 1 true; FinishClose; ChildReap 1; Tick; Spawn true].
Example ex_fail_ok : summary (run (init (Until false)) ex_fail) =
  Some (Exited COwnCancel ChildExc,
        [(false, Done Failed, false, true, false); (false, Done ClosedScope, false, false, false);
         (true, Done Discarded, false, false, false)],
        Unsubscribed, (0, 1, None, Some 0)).
Proof. vm_compute. reflexivity. Qed.

Definition ex_true : list label := [BodyStep; Spawn false; ChildStart 0; DeliverInterrupt; CloseChild 0 true; FinishClose].
Example ex_true_ok : summary (run (init (Until true)) ex_true) =
  Some (Exited COwnInterrupt ChildExc, [(false, Done Failed, false, true, false)], IDelivered, (1, 0, Some 0, Some 0)).
Proof. vm_compute. reflexivity. Qed.

Definition ex_race : list label :=   (* notification fires, but the body and children finish first *)
  [Spawn false; ChildStart 0; BodyReturn; AwaitStep; ChildReturn 0; Fire; AwaitStep; FinishClose; Tick].
Example ex_race_ok : summary (run (init (Until false)) ex_race) =
  Some (Exited CGraceful NoExc, [(false, Done Success, false, true, false)], IRevoked, (0, 1, Some 0, Some 0)).
Proof. vm_compute. reflexivity. Qed.
