(* Proofs over ScopeProto: invariants of all reachable states of one scope instance. *)
Require Import List Bool Arith Lia.
Import ListNotations.
From Usim Require Import ScopeProto.

(** * list lemmas *)
Lemma forallb_upd : forall A (g : A -> bool) l i x,
  forallb g l = true -> g x = true -> forallb g (upd i x l) = true.
Proof.
  induction l; simpl; intros; auto. apply andb_true_iff in H as [? ?].
  destruct i; simpl; apply andb_true_iff; auto.
Qed.
Lemma forallb_nth : forall A (g : A -> bool) l i c,
  forallb g l = true -> nth_error l i = Some c -> g c = true.
Proof. intros. rewrite forallb_forall in H. apply H. eapply nth_error_In; eauto. Qed.
Lemma existsb_upd_same : forall A (g : A -> bool) l i c x,
  nth_error l i = Some c -> g x = g c -> existsb g (upd i x l) = existsb g l.
Proof.
  induction l; destruct i; simpl; intros; try discriminate.
  - inversion H; subst. now rewrite H0.
  - f_equal. eauto.
Qed.
Lemma existsb_upd_or : forall A (g : A -> bool) l i x,
  existsb g (upd i x l) = true -> g x = true \/ existsb g l = true.
Proof.
  induction l; simpl; intros; auto. destruct i; simpl in H; apply orb_true_iff in H as [?|?]; auto.
  - right. rewrite H. apply orb_true_r.
  - right. rewrite H. reflexivity.
  - apply IHl in H as [?|?]; auto. right. rewrite H. apply orb_true_r.
Qed.
Lemma forallb_imp2 : forall A (g h k : A -> bool) l,
  (forall c, g c = true -> h c = true -> k c = true) ->
  forallb g l = true -> forallb h l = true -> forallb k l = true.
Proof.
  induction l; simpl; intros; auto.
  apply andb_true_iff in H0 as [? ?]. apply andb_true_iff in H1 as [? ?]. apply andb_true_iff; auto.
Qed.
Lemma forallb_imp : forall A (g k : A -> bool) l,
  (forall c, g c = true -> k c = true) -> forallb g l = true -> forallb k l = true.
Proof. intros. apply (forallb_imp2 A g g k l); auto. Qed.
Lemma existsb_false_forallb : forall A (g : A -> bool) l,
  existsb g l = false -> forallb (fun c => negb (g c)) l = true.
Proof.
  induction l; simpl; intros; auto. apply orb_false_iff in H as [? ?]. rewrite H. simpl. auto.
Qed.
Lemma nth_error_upd : forall A l i j (x : A),
  nth_error (upd i x l) j = if Nat.eqb i j then (match nth_error l j with Some _ => Some x | None => None end)
                            else nth_error l j.
Proof.
  induction l; intros.
  - simpl. destruct j; simpl; destruct (Nat.eqb i _); reflexivity.
  - destruct i, j; simpl; auto.
Qed.

(** * the invariant *)
Definition cause_of (p : phase) : option cause :=
  match p with Closing c | Exited c _ => Some c | _ => None end.
Definition isexited (p : phase) : bool := match p with Exited _ _ => true | _ => false end.
Definition graceful (p : phase) : bool := match cause_of p with Some CGraceful => true | _ => false end.
Definition iscv (c : child) : bool := match st c with Done ClosedVolatile => true | _ => false end.
Definition isdisc (c : child) : bool := match st c with Done Discarded => true | _ => false end.
Definition closedlike (c : child) : bool :=
  match st c with Done ClosedScope | Done ClosedVolatile | Done Discarded => true | _ => false end.
Definition isclosedscope (c : child) : bool := match st c with Done ClosedScope => true | _ => false end.

(* per child, relative to the owner phase *)
Definition cinvb (p : phase) (c : child) : bool :=
  (listed c || isdone c) &&
  (if isdisc c then negb (ran c) && negb (listed c) && negb (late c) else true) &&
  (if active p then negb (closedlike c) else true) &&
  (if graceful p then vol c || (isdone c && negb (isclosedscope c)) else true) &&
  (if isexited p then isdone c else true) &&
  (match st c with Done ClosedVolatile => vol c | Done ClosedScope => negb (vol c) | _ => true end).

Definition tinv (s : state) : Prop :=
  match fired_at s with
  | Some t => match ph s with
              | Exited _ _ => exited_at s = Some t
              | Closing _ => now s = t
              | _ => now s = t /\ intr s = IScheduled
              end
  | None => intr s <> IScheduled /\ intr s <> IDelivered
  end.

Definition oinv (s : state) : Prop :=
  match ph s with Exited c o => o = outcome_of c (existsb isfailed (kids s)) | _ => True end.

Record inv (s : state) : Prop := mkInv {
  i_int : interruptable s = active (ph s);
  i_inert : active (ph s) = false -> inert (intr s) = true;
  i_kids : forallb (cinvb (ph s)) (kids s) = true;
  i_vlast : existsb iscv (kids s) = true -> forallb nv_done (kids s) = true;
  i_time : tinv s;
  i_out : oinv s
}.

Ltac inv_step H :=
  unfold step, on_child, running_only in H;
  repeat match goal with
  | H' : match ?x with _ => _ end = Some _ |- _ => destruct x eqn:?; try discriminate H'
  | H' : Some _ = Some _ |- _ => inversion H'; subst; clear H'
  end.

Ltac pbrute p := destruct p as [| | |[]|[] []].
Ltac cbrute c := destruct c as [[] [| |[]] [] [] []].

(** child-level transformations *)
Inductive cstep (p : phase) (vd : bool) (c : child) : child -> Prop :=
  | cs_start : isclosing p = false -> st c = Created -> cstep p vd c (mkChild (vol c) Running (listed c) true (late c))
  | cs_reap : isclosing p = false -> isdone c && listed c = true ->
              cstep p vd c (mkChild (vol c) (st c) false (ran c) (late c))
  | cs_step : isclosing p = false -> st c = Running -> cstep p vd c c
  | cs_fin : forall h, isclosing p = false -> st c = Running -> (h = Success \/ h = Failed \/ h = CancelledInd) ->
             cstep p vd c (fin h c)
  | cs_cancel_created : st c = Created -> cstep p vd c (set_st (Done CancelledInd) c)
  | cs_close_created : isclosing p = true -> st c = Created -> vol c && negb vd = false ->
                       cstep p vd c (set_st (Done (closedhow c)) c)
  | cs_close_running : forall d : bool, isclosing p = true -> st c = Running -> vol c && negb vd = false ->
                       cstep p vd c (fin (if d then Failed else closedhow c) c).

Lemma cstep_cinv : forall p vd c c', cstep p vd c c' -> cinvb p c = true -> cinvb p c' = true.
Proof.
  intros p vd c c' H; destruct H; intros;
    try (match goal with H : _ \/ _ |- _ => destruct H as [?|[?|?]]; subst end); try destruct d;
    destruct c as [v s0 li r la]; simpl in *; subst;
    pbrute p; simpl in *; try discriminate;
    try (destruct s0 as [| |[]]; simpl in *; try discriminate);
    destruct v, li, r, la; simpl in *; try discriminate; reflexivity.
Qed.
Lemma cstep_nvdone : forall p vd c c', cstep p vd c c' -> nv_done c = true -> nv_done c' = true.
Proof.
  intros p vd c c' H; destruct H; intros;
    cbrute c; simpl in *; try discriminate; reflexivity.
Qed.
Lemma cstep_cv : forall p vd c c', cstep p vd c c' -> iscv c' = true -> iscv c = true \/ vd = true.
Proof.
  intros p vd c c' H; destruct H; intros;
    try (match goal with H : _ \/ _ |- _ => destruct H as [?|[?|?]]; subst end); try destruct d; destruct vd; auto;
    cbrute c; simpl in *; try discriminate; auto.
Qed.
Lemma cstep_done : forall p vd c c', cstep p vd c c' -> isdone c = true ->
  st c' = st c /\ vol c' = vol c /\ ran c' = ran c /\ late c' = late c.
Proof.
  intros p vd c c' H; destruct H; intros; auto;
    cbrute c; simpl in *; try discriminate; auto.
Qed.

(** shape of a step as far as the children are concerned *)
Definition spawned (s : state) (v : bool) : child :=
  if interruptable s then accepted v (match ph s with Body => false | _ => true end) else refused v.

Lemma kids_sched_cs : forall s, kids (sched_cs s) = kids s.
Proof. intros; unfold sched_cs; destruct (interruptable s); reflexivity. Qed.
Lemma ph_sched_cs : forall s, ph (sched_cs s) = ph s.
Proof. intros; unfold sched_cs; destruct (interruptable s); reflexivity. Qed.

Lemma step_shape : forall s l s', step s l = Some s' ->
  kids s' = kids s \/
  (exists v, l = Spawn v /\ s' = set_kids (kids s ++ [spawned s v]) s) \/
  (exists i c c', nth_error (kids s) i = Some c /\ kids s' = upd i c' (kids s) /\ ph s' = ph s /\
                  cstep (ph s) (forallb nv_done (kids s)) c c').
Proof.
  intros s l s' H; destruct l;
    [inversion H; right; left; eexists; split; reflexivity|..]; inv_step H;
    try match goal with |- context [if ?x then _ else _] => destruct x eqn:? end;
    try (left; simpl; reflexivity);
    try (right; right; do 3 eexists; split; [eassumption|];
         split; [simpl; rewrite ?kids_sched_cs; reflexivity|];
         split; [simpl; rewrite ?ph_sched_cs; (reflexivity || assumption)|]).
  all: try solve [ eapply cs_start; eauto | eapply cs_reap; eauto | eapply cs_step; eauto
                 | eapply cs_fin; eauto | eapply cs_cancel_created; eauto
                 | eapply cs_close_created; simpl; eauto | apply (cs_close_running _ _ _ true); simpl; auto | apply (cs_close_running _ _ _ false); simpl; auto ].
Qed.

Lemma inert_unsub : forall i, inert (unsub i) = true.
Proof. destruct i; reflexivity. Qed.

Ltac prep :=
  try match goal with |- context [if ?x then _ else _] => destruct x eqn:? end;
  unfold sched_cs in *;
  try match goal with |- context [if ?x then _ else _] => destruct x eqn:? end;
  simpl in *;
  repeat match goal with H : ph _ = _ |- _ => rewrite H in *; clear H end; simpl in *.

Lemma step_A : forall s l s', inv s -> step s l = Some s' ->
  interruptable s' = active (ph s') /\ (active (ph s') = false -> inert (intr s') = true).
Proof.
  intros s l s' [A1 A2 _ _ _ _] H; destruct l; inv_step H; prep;
    rewrite ?inert_unsub; auto; split; intros; try congruence; auto;
    try match goal with H : intr _ = _ |- _ => rewrite H end; auto.
Qed.

Lemma unsub_not : forall i, i <> IScheduled -> i <> IDelivered -> unsub i <> IScheduled /\ unsub i <> IDelivered.
Proof. destruct i; simpl; intros; split; congruence. Qed.

Lemma step_T : forall s l s', inv s -> step s l = Some s' -> tinv s'.
Proof.
  intros s l s' [A1 A2 _ _ T _] H; unfold tinv in *; destruct l; inv_step H; prep;
    try assumption;
    destruct (fired_at s) eqn:?; simpl in *;
    try (destruct (ph s) eqn:?; simpl in *);
    try (apply unsub_not; tauto);
    try match goal with H : intr _ = _ |- _ => rewrite H in * end;
    try solve [intuition (try congruence)].
Qed.

Lemma cinv_W1 : forall p p' c, active p = true -> isexited p' = false -> graceful p' = false ->
  cinvb p c = true -> cinvb p' c = true.
Proof.
  intros p p' c; pbrute p; simpl; try discriminate; intros _; pbrute p'; simpl; try discriminate; intros _ _;
    cbrute c; simpl; intros; try discriminate; reflexivity.
Qed.
Lemma cinv_W2 : forall p c, active p = true -> cinvb p c = true -> negb (pending_nv c) = true ->
  cinvb (Closing CGraceful) c = true.
Proof. intros p c; pbrute p; simpl; try discriminate; intros _; cbrute c; simpl; intros; try discriminate; reflexivity. Qed.
Lemma cinv_W3 : forall c0 o c, cinvb (Closing c0) c = true -> closed_ok c = true -> cinvb (Exited c0 o) c = true.
Proof. intros c0 o c; destruct c0; cbrute c; simpl; intros; try discriminate; reflexivity. Qed.
Lemma cinv_spawn : forall p v, cinvb p (if active p then accepted v (match p with Body => false | _ => true end) else refused v) = true.
Proof. intros p v; pbrute p; destruct v; reflexivity. Qed.

Lemma step_K : forall s l s', inv s -> step s l = Some s' -> forallb (cinvb (ph s')) (kids s') = true.
Proof.
  intros s l s' [A1 A2 K _ _ _] H.
  destruct (step_shape _ _ _ H) as [E|[(v&->&->)|(i&c&c'&N&E&P&CS)]].
  - rewrite E. destruct l; inv_step H; prep; try assumption;
      try solve [eapply forallb_imp; [|exact K]; intros; eapply cinv_W1; [| | |eassumption]; solve [reflexivity|assumption]];
      try solve [eapply forallb_imp2; [|exact K|eapply existsb_false_forallb; eassumption];
                 simpl; intros; eapply cinv_W2; eauto; reflexivity];
      try solve [eapply forallb_imp2; [|exact K|eassumption]; simpl; intros; eapply cinv_W3; eauto].
  - simpl. rewrite forallb_app, K. simpl. unfold spawned. rewrite A1, cinv_spawn. reflexivity.
  - rewrite E, P. apply forallb_upd; auto. eapply cstep_cinv; eauto. eapply forallb_nth; eauto.
Qed.
