(** C06 -- life cycle of ONE usim Task (usim/_primitives/task.py: payload_wrapper, cancel, __close__,
    status, __await__, Done; usim/_primitives/context.py: Scope.do, __child_finished__).

    A nondeterministic transition system.  The environment (any activity, at any time, any number of
    times) may [Cancel tok], [Close reason], start and complete awaits; the loop may activate the
    runner for the first time ([Start]), resume it normally ([Resume]), deliver a scheduled CancelTask
    ([Deliver]) or let time pass ([Tick]); what the payload does when it gets control is an arbitrary
    [reaction].  One transition = one atomic section of the library (everything between two
    suspension points is synchronous).  [step] is executable: it returns [None] for a transition that
    is not possible in the given state, so that recorded histories of the real implementation can be
    replayed through it.                                                                           *)
From Coq Require Import List ZArith Bool Lia String.
Import ListNotations.
Open Scope Z_scope.

(** stored exceptions.  [ERaised e like] is an exception raised by payload code itself; [like] says
    whether it happens to be an instance of TaskCancelled/TaskClosed (e.g. the payload awaited another
    cancelled task) -- `status` then reports CANCELLED although the task *failed*. *)
Inductive exc :=
| ECancelled (tok : Z)                  (* TaskCancelled(task, tok), the transcript of CancelTask(task, tok) *)
| EClosed (reason : Z)                  (* the TaskClosed / VolatileTaskClosed given to __close__ *)
| ERaised (e : Z) (cancel_like : bool).

Inductive outcome := Value (v : Z) | Error (e : exc).

(** state of the runner coroutine *)
Inductive phase :=
| Created      (* CORO_CREATED: the un-cancellable first send(None) is still queued *)
| Delaying     (* suspended in the wrapper's own `await suspend(delay|at)`, payload not started *)
| Suspended    (* suspended somewhere inside the payload *)
| Finished.    (* the wrapper has returned *)

Inductive status := StCreated | StRunning | StCancelled | StFailed | StSuccess.

Record state := mkState {
  result : option outcome;             (* Task._result *)
  done : bool;                         (* bool(Task._done) *)
  phase_of : phase;
  pending : list (Z * nat);            (* scheduled, not revoked, not delivered CancelTask: (token, time scheduled) *)
  now : nat;                           (* number of time steps since creation *)
  ran : bool;                          (* has any payload statement executed *)
  reports : list bool;                 (* parent.__child_finished__(failed=..) calls, newest first *)
  waiting : list Z;                    (* awaiters inside `yield from self._done.__await__()` *)
  observed : list (Z * option outcome);(* completed awaits: awaiter, what it read from _result *)
  done_sets : nat;                     (* calls of Done.__set_done__ *)
  assert_failed : bool                 (* `assert not self._value` in __set_done__ tripped *)
}.

Definition init : state :=
  mkState None false Created [] O false [] [] [] O false.

(** what payload code does when it gets control at a suspension point *)
Inductive reaction :=
| RNone                     (* no payload code runs in this activation *)
| RSuspend                  (* runs and suspends again (also: catches a CancelTask and goes on waiting) *)
| RReturn (v : Z)
| RRaise (e : Z) (cancel_like : bool)
| RPropagate.               (* lets the delivered CancelTask propagate *)

(** what payload code does while it is being closed (GeneratorExit at its suspension point) *)
Inductive creaction :=
| CPass                     (* GeneratorExit propagates (possibly through finally blocks) *)
| CRaise (e : Z) (cancel_like : bool)   (* a finally/except block raises something else *)
| CReturn (v : Z).          (* catches GeneratorExit and returns: the wrapper delegates to the payload
                               (`await`), so by PEP 380 close() of the wrapper closes the payload,
                               discards what it returned and raises GeneratorExit in the wrapper *)

Inductive op :=
| Start (delayed : bool) (r : reaction)
| Resume (r : reaction)
| Cancel (tok : Z)
| Deliver (tok : Z) (r : reaction)
| Close (reason : Z) (c : creaction)
| AwaitStart (a : Z)
| AwaitComplete (a : Z)
| Tick.

(** Task.status *)
Definition status_of (s : state) : status :=
  match result s with
  | Some (Value _) => StSuccess
  | Some (Error (ECancelled _)) | Some (Error (EClosed _)) | Some (Error (ERaised _ true)) => StCancelled
  | Some (Error (ERaised _ false)) => StFailed
  | None => match phase_of s with Created => StCreated | _ => StRunning end
  end.

Definition set_result (s : state) (r : outcome) : state :=
  mkState (Some r) (done s) (phase_of s) (pending s) (now s) (ran s) (reports s) (waiting s)
          (observed s) (done_sets s) (assert_failed s).
Definition set_phase (s : state) (p : phase) : state :=
  mkState (result s) (done s) p (pending s) (now s) (ran s) (reports s) (waiting s)
          (observed s) (done_sets s) (assert_failed s).
Definition set_ran (s : state) : state :=
  mkState (result s) (done s) (phase_of s) (pending s) (now s) true (reports s) (waiting s)
          (observed s) (done_sets s) (assert_failed s).
Definition set_pending (s : state) (p : list (Z * nat)) : state :=
  mkState (result s) (done s) (phase_of s) p (now s) (ran s) (reports s) (waiting s)
          (observed s) (done_sets s) (assert_failed s).
Definition report (s : state) (failed : bool) : state :=
  mkState (result s) (done s) (phase_of s) (pending s) (now s) (ran s) (failed :: reports s) (waiting s)
          (observed s) (done_sets s) (assert_failed s).

(** Done.__set_done__: assert not self._value; self._value = True; self.__trigger__() *)
Definition set_done (s : state) : state :=
  mkState (result s) true (phase_of s) (pending s) (now s) (ran s) (reports s) (waiting s)
          (observed s) (S (done_sets s)) (assert_failed s || done s).

(** the tail of payload_wrapper after one of the except/else clauses stored the result:
    __child_finished__(failed), revoke every pending cancellation, close the payload, set done *)
Definition finish (s : state) (failed : bool) : state :=
  set_done (set_phase (set_pending (report s failed) []) Finished).

(** payload code runs from a suspension point ([tok] = token of the CancelTask being delivered) *)
Definition react (s : state) (r : reaction) (tok : option Z) : option state :=
  match r with
  | RNone => None
  | RSuspend => Some (set_phase s Suspended)
  | RReturn v => Some (finish (set_result s (Value v)) false)                         (* else: clause *)
  | RRaise e c => Some (finish (set_result s (Error (ERaised e c))) true)             (* except BaseException *)
  | RPropagate =>
      match tok with
      | Some t => Some (finish (set_result s (Error (ECancelled t))) false)           (* except CancelTask *)
      | None => None
      end
  end.

Fixpoint remove_tok (t : Z) (l : list (Z * nat)) : option (list (Z * nat)) :=
  match l with
  | [] => None
  | (t', n) :: r => if t =? t' then Some r
                    else match remove_tok t r with Some r' => Some ((t', n) :: r') | None => None end
  end.

Fixpoint remove_one (a : Z) (l : list Z) : option (list Z) :=
  match l with
  | [] => None
  | b :: r => if a =? b then Some r
              else match remove_one a r with Some r' => Some (b :: r') | None => None end
  end.

Definition is_rnone (r : reaction) : bool := match r with RNone => true | _ => false end.
Definition is_cpass (c : creaction) : bool := match c with CPass => true | _ => false end.

Definition step (s : state) (o : op) : option state :=
  match o with
  | Start delayed r =>
      match phase_of s with
      | Created =>
          match result s with
          | Some _ =>
              (* `if self._result is not None:` close the unstarted payload, report, return;
                 done was set by cancel()/__close__() already *)
              if is_rnone r then Some (set_phase (report s false) Finished) else None
          | None =>
              if delayed then (if is_rnone r then Some (set_phase s Delaying) else None)
              else react (set_ran s) r None
          end
      | _ => None
      end
  | Resume r =>
      match phase_of s with
      | Delaying => react (set_ran s) r None
      | Suspended => react s r None
      | _ => None
      end
  | Cancel tok =>
      match result s with
      | Some _ => Some s                                            (* finished: nothing *)
      | None =>
          match phase_of s with
          | Created => Some (set_done (set_result s (Error (ECancelled tok))))
          | _ => Some (set_pending s (pending s ++ [(tok, now s)]))   (* schedule CancelTask now *)
          end
      end
  | Deliver tok r =>
      match remove_tok tok (pending s) with
      | None => None
      | Some p' =>
          let s' := set_pending s p' in
          match phase_of s with
          | Delaying =>   (* raised in the wrapper's own suspend: the payload never starts *)
              if is_rnone r then Some (finish (set_result s' (Error (ECancelled tok))) false) else None
          | Suspended => react s' r (Some tok)
          | _ => None
          end
      end
  | Close reason c =>
      match result s with
      | Some _ => if is_cpass c then Some s else None
      | None =>
          let s' := set_result s (Error (EClosed reason)) in
          match phase_of s with
          | Created => if is_cpass c then Some (set_done s') else None
          | Delaying => if is_cpass c then Some (finish s' false) else None      (* except GeneratorExit *)
          | Suspended =>
              match c with
              | CPass => Some (finish s' false)                                    (* except GeneratorExit *)
              | CRaise e k => Some (finish (set_result s' (Error (ERaised e k))) true)   (* except BaseException *)
              | CReturn _ => Some (finish s' false)                                (* except GeneratorExit *)
              end
          | Finished => if is_cpass c then Some s' else None   (* closing a finished coroutine: nothing *)
          end
      end
  | AwaitStart a =>
      Some (mkState (result s) (done s) (phase_of s) (pending s) (now s) (ran s) (reports s)
                    (a :: waiting s) (observed s) (done_sets s) (assert_failed s))
  | AwaitComplete a =>
      if done s then
        match remove_one a (waiting s) with
        | Some w => Some (mkState (result s) (done s) (phase_of s) (pending s) (now s) (ran s) (reports s)
                                  w ((a, result s) :: observed s) (done_sets s) (assert_failed s))
        | None => None
        end
      else None
  | Tick =>
      (* the loop drains the queue of the current time before it advances: a scheduled CancelTask
         and the first activation of a new task are both queued for *now* *)
      match pending s, phase_of s with
      | [], Created => None
      | [], _ => Some (mkState (result s) (done s) (phase_of s) (pending s) (S (now s)) (ran s) (reports s)
                              (waiting s) (observed s) (done_sets s) (assert_failed s))
      | _ :: _, _ => None
      end
  end.

Fixpoint run (s : state) (ops : list op) : option state :=
  match ops with
  | [] => Some s
  | o :: r => match step s o with Some s' => run s' r | None => None end
  end.

Definition reachable (s : state) : Prop := exists ops, run init ops = Some s.

(** ---------- TaskState table (regenerated from the source in gen/Generated.v) ---------- *)
Open Scope string_scope.
Definition status_name (st : status) : string :=
  match st with
  | StCreated => "CREATED" | StRunning => "RUNNING" | StCancelled => "CANCELLED"
  | StFailed => "FAILED" | StSuccess => "SUCCESS"
  end.
Definition status_code_str (st : status) : string :=
  match st with
  | StCreated => "1" | StRunning => "2" | StCancelled => "4" | StFailed => "8" | StSuccess => "16"
  end.
Close Scope string_scope.
Definition status_code (st : status) : Z :=
  match st with
  | StCreated => 1 | StRunning => 2 | StCancelled => 4 | StFailed => 8 | StSuccess => 16
  end.

Definition terminal (st : status) : bool :=
  match st with StCancelled | StFailed | StSuccess => true | _ => false end.

Definition rank (st : status) : nat :=
  match st with StCreated => 0 | StRunning => 1 | _ => 2 end.

(** ---------- projection compared with the implementation after every event ---------- *)
Definition outcome_kind (o : option outcome) : Z * Z :=
  match o with
  | None => (0, 0)
  | Some (Value v) => (1, v)
  | Some (Error (ECancelled t)) => (2, t)
  | Some (Error (EClosed r)) => (3, r)
  | Some (Error (ERaised e false)) => (4, e)
  | Some (Error (ERaised e true)) => (5, e)
  end.

Definition count_bool (b : bool) (l : list bool) : Z :=
  Z.of_nat (List.length (filter (Bool.eqb b) l)).

Definition b2z (b : bool) : Z := if b then 1 else 0.

Definition project (s : state) : list Z :=
  let '(rk, rv) := outcome_kind (result s) in
  let '(ok, ov) := match observed s with [] => (0, 0) | (_, o) :: _ => outcome_kind o end in
  [ status_code (status_of s); rk; rv; b2z (done s);
    b2z (match phase_of s with Finished => true | _ => false end);
    b2z (ran s); count_bool false (reports s); count_bool true (reports s);
    Z.of_nat (List.length (observed s)); ok; ov ].

Fixpoint zlist_eqb (a b : list Z) : bool :=
  match a, b with
  | [], [] => true
  | x :: a', y :: b' => (x =? y) && zlist_eqb a' b'
  | _, _ => false
  end.

(** replay a recorded history: index of the first event the model cannot follow (1-based), 0 = ok *)
Fixpoint replay_from (i : nat) (s : state) (evs : list (op * list Z)) : nat :=
  match evs with
  | [] => O
  | (o, p) :: r =>
      match step s o with
      | None => i
      | Some s' => if zlist_eqb (project s') p then replay_from (S i) s' r else i
      end
  end.

Definition replay (evs : list (op * list Z)) : nat := replay_from 1%nat init evs.

Fixpoint bad_from (i : nat) (cs : list (list (op * list Z))) : list nat :=
  match cs with
  | [] => []
  | c :: r => match replay c with O => bad_from (S i) r | _ => i :: bad_from (S i) r end
  end.

Definition bad_cases := bad_from O.
(** for diagnosis: (case index, first bad event) *)
Fixpoint bad_detail_from (i : nat) (cs : list (list (op * list Z))) : list (nat * nat) :=
  match cs with
  | [] => []
  | c :: r => match replay c with O => bad_detail_from (S i) r | k => (i, k) :: bad_detail_from (S i) r end
  end.
Definition bad_detail := bad_detail_from O.
