(** Theorems about the wake-up protocol, the scope cancel signal and task cancellation:
    over ALL event sequences of a fully nondeterministic environment. *)
From Coq Require Import List Bool Arith Lia.
From Usim Require Import NotifProto.
Import ListNotations.

(** * Part 1 *)

Definition winv (me : nat) (s : wst) : Prop :=
  w_late s = 0 /\ w_err s = false /\
  match w_ph s with
  | Idle => s = winit
  | Waiting => w_got s = [] /\ w_revk s = false /\
      ((w_kind s = Plain /\ w_list s = [me] /\ w_q s = [] /\ w_sched s = false) \/
       (w_list s = [] /\ w_q s = [me] /\ w_sched s = true))
  | Woken => w_got s = [me] /\ w_list s = [] /\ w_q s = [] /\ w_sched s = true /\ w_revk s = false
  | Left _ => w_list s = [] /\ (w_got s = [] \/ w_got s = [me]) /\
              (w_q s = [] \/ (w_revk s = true /\ w_q s = [me]))
  end.

Lemma wstep_inv me s e : winv me s -> winv me (wstep me s e).
Proof.
  destruct s as [k l sc rv q g lt er p]. unfold winv. cbn. intros (H1 & H2 & H3). subst.
  destruct p; destruct e as [k'| | | |]; cbn in *;
    try (inversion H3; subst; clear H3; try destruct k'; cbn; intuition congruence);
    try (destruct H3 as (? & ? & [(? & ? & ? & ?)|(? & ? & ?)]); subst; cbn;
         unfold wfin; cbn; try rewrite Nat.eqb_refl; try destruct k; cbn; intuition congruence);
    try (destruct H3 as (? & ? & ? & ? & ?); subst; cbn; unfold wfin; cbn; try destruct k; cbn;
         intuition congruence);
    try (destruct H3 as (? & ? & [?|(? & ?)]); subst; cbn; intuition congruence).
Qed.

Lemma wrun_inv me tr : forall s, winv me s -> winv me (wrun me s tr).
Proof. unfold wrun. induction tr as [|e tr IH]; cbn; intros s H; auto. apply IH, wstep_inv, H. Qed.

Lemma winit_inv me : winv me winit.
Proof. unfold winv. cbn. auto. Qed.

Lemma wreach_inv me tr : winv me (wrun me winit tr).
Proof. apply wrun_inv, winit_inv. Qed.

(** once the waiter has left, no event changes the deliveries, the phase or the (empty) waiting list entry *)
Lemma wstep_left me s e h :
  winv me s -> w_ph s = Left h ->
  w_got (wstep me s e) = w_got s /\ w_ph (wstep me s e) = Left h /\ wstep me s EAwake = s.
Proof.
  destruct s as [k l sc rv q g lt er p]. unfold winv. cbn. intros (H1 & H2 & H3) Hp. subst.
  destruct H3 as (? & ? & [?|(? & ?)]); subst; destruct e; cbn; auto.
Qed.

(** C03: after the waiter left its wait (normally, or by a foreign signal at any moment) the kernel never
    executes an activation carrying w again, whatever anybody does afterwards; and at that moment every
    queued activation carrying w is revoked and w is not in the waiting list *)
Theorem never_after_leaving me tr h :
  let s := wrun me winit tr in
  w_ph s = Left h ->
  (w_list s = [] /\ (w_q s = [] \/ w_revk s = true)) /\
  forall tr', w_got (wrun me s tr') = w_got s /\ w_ph (wrun me s tr') = Left h.
Proof.
  intros s Hp. assert (Hi : winv me s) by apply wreach_inv. split.
  - destruct Hi as (_ & _ & Hi). rewrite Hp in Hi. intuition.
  - clearbody s. intros tr'. revert s Hp Hi. unfold wrun. induction tr' as [|e tr' IH]; cbn; intros s Hp Hi; auto.
    destruct (wstep_left me s e h Hi Hp) as (H1 & H2 & _).
    destruct (IH _ H2 (wstep_inv _ _ e Hi)) as (H3 & H4). split; congruence.
Qed.

(** w is thrown at most once, only while its waiter is waiting, and [_waiting.remove] never fails *)
Theorem at_most_once me tr :
  let s := wrun me winit tr in length (w_got s) <= 1 /\ w_late s = 0 /\ w_err s = false.
Proof.
  cbn. destruct (wreach_inv me tr) as (H1 & H2 & H3). split; [|auto].
  destruct (w_ph (wrun me winit tr)); [rewrite H3; cbn; lia | | |];
    [destruct H3 as (-> & _) | destruct H3 as (-> & _) | destruct H3 as (_ & [-> | ->] & _)]; cbn; lia.
Qed.

(** a waiter that left is not in the waiting list: a later __awake_next__/__awake_all__ cannot pick it
    ([EAwake] has no effect on w) *)
Theorem no_stale_waiter me tr h :
  let s := wrun me winit tr in w_ph s = Left h -> w_list s = [] /\ wstep me s EAwake = s.
Proof.
  intros s Hp. assert (Hi : winv me s) by apply wreach_inv. split.
  - destruct Hi as (_ & _ & Hi). rewrite Hp in Hi. tauto.
  - eapply (wstep_left me s EAwake h); eauto.
Qed.

(** every waiting-list entry, queued activation and delivery of w has the waiter that created w as target *)
Theorem delivered_only_to_owner me tr :
  let s := wrun me winit tr in Forall (eq me) (w_list s ++ w_q s ++ w_got s).
Proof.
  cbn. destruct (wreach_inv me tr) as (_ & _ & H3).
  destruct (w_ph (wrun me winit tr)).
  - rewrite H3. constructor.
  - destruct H3 as (-> & _ & [(_ & -> & -> & _)|(-> & -> & _)]); repeat constructor.
  - destruct H3 as (-> & -> & -> & _). repeat constructor.
  - destruct H3 as (-> & [-> | ->] & [-> | (_ & ->)]); repeat constructor.
Qed.

(** no lost wake-up at protocol level: while the waiter waits, w is either in the waiting list (a later
    awake reaches it) or exactly one unrevoked activation carrying it is queued *)
Theorem waiting_is_wakeable me tr :
  let s := wrun me winit tr in
  w_ph s = Waiting -> w_revk s = false /\ ((w_list s = [me] /\ w_q s = []) \/ (w_list s = [] /\ w_q s = [me])).
Proof.
  intros s Hp. destruct (wreach_inv me tr) as (_ & _ & H3). fold s in H3. rewrite Hp in H3. intuition.
Qed.

(** * Part 2a *)

Definition cinv (s : cst) : Prop := c_late s = 0 /\ (c_in s = false -> c_int s = false /\ c_revk s = true).

Lemma cstep_inv s e : cinv s -> cinv (cstep s e).
Proof.
  destruct s as [i r q n g lt]. unfold cinv. cbn. intros [H1 H2]. subst.
  destruct e; cbn; auto; [destruct i | destruct q; [|destruct r; [|destruct n]]]; cbn; auto;
    try (split; auto; intros H; destruct (H2 H); discriminate).
  destruct (H2 eq_refl); discriminate.
Qed.

Lemma crun_inv tr : forall s, cinv s -> cinv (crun s tr).
Proof. unfold crun. induction tr as [|e tr IH]; cbn; intros s H; auto. apply IH, cstep_inv, H. Qed.

(** C03: after the owner left the scope block no activation carrying that scope's cancel signal executes:
    all queued ones are revoked and no new one can be scheduled *)
Theorem scope_cancel_never_after_exit tr :
  let s := crun cinit tr in
  c_late s = 0 /\
  (c_in s = false -> c_int s = false /\ c_revk s = true /\ forall tr', c_got (crun s tr') = c_got s).
Proof.
  intros s. assert (Hi : cinv s) by (apply crun_inv; unfold cinv; cbn; split; [auto | discriminate]).
  split; [apply Hi|]. intros Hn. destruct (proj2 Hi Hn) as [H1 H2]. split; [auto|]. split; [auto|].
  clearbody s. intros tr'. revert s Hi Hn H1 H2. unfold crun.
  induction tr' as [|e tr' IH]; cbn; intros s Hi Hn H1 H2; auto.
  assert (Hs : c_got (cstep s e) = c_got s /\ c_in (cstep s e) = false).
  { destruct s as [i r q n g lt]. cbn in *. subst. destruct e; cbn; auto. destruct q; cbn; auto. }
  destruct Hs as [Hs1 Hs2]. pose proof (cstep_inv s e Hi) as Hi'. destruct (proj2 Hi' Hs2).
  rewrite IH; auto.
Qed.

(** * Part 2b *)

Definition dead (c : crec) : Prop := k_revk c = true \/ k_queued c = false.

Definition tinv (s : tst) : Prop :=
  t_late s = 0 /\ (t_status s = TCreated -> t_cs s = []) /\ (t_result s = true -> Forall dead (t_cs s)) /\
  (t_done s = true -> t_result s = true) /\ (t_status s = TFinished -> t_result s = true).

Lemma upd_dead i f l : Forall dead l -> (forall c, dead c -> dead (f c)) -> Forall dead (upd i f l).
Proof.
  intros H Hf. revert i. induction H; intros [|i]; cbn; constructor; auto.
Qed.

Lemma revoke_all_dead l : Forall dead (revoke_all l).
Proof. unfold revoke_all. apply Forall_forall. intros c Hc. apply in_map_iff in Hc. destruct Hc as (x & <- & _). left. auto. Qed.

Lemma tstep_inv s e : tinv s -> tinv (tstep s e).
Proof.
  destruct s as [st rs dn cs g lt]. unfold tinv. cbn. intros (H1 & H2 & H3 & H4 & H5). subst.
  destruct e as [| | | |i]; cbn.
  - destruct rs; cbn; [auto 6|]. destruct st; cbn; repeat split; auto; try discriminate.
    intros _. rewrite H2; auto.
  - destruct st; cbn; auto 6. destruct rs; cbn; repeat split; auto; try discriminate.
  - destruct st; cbn; auto 6. repeat split; auto; try discriminate. intros _. apply revoke_all_dead.
  - destruct rs; cbn; [auto 6|]. destruct st; cbn; auto 6; repeat split; auto; try discriminate.
    + intros _. rewrite H2; auto.
    + intros _. apply revoke_all_dead.
  - destruct (nth_error cs i) as [c|] eqn:E; cbn; [|auto 6].
    destruct (k_queued c) eqn:Eq; cbn; [|auto 6].
    assert (Hu : Forall dead cs -> Forall dead (upd i (fun c => Build_crec (k_revk c) false) cs)).
    { intros H. apply upd_dead; auto. intros. right. auto. }
    assert (Hn : cs <> []) by (intros ->; destruct i; discriminate).
    destruct (k_revk c) eqn:Er; cbn.
    + repeat split; auto. intros Hc. destruct (Hn (H2 Hc)).
    + repeat split; auto.
      * destruct dn; auto. exfalso. specialize (H3 (H4 eq_refl)). rewrite Forall_forall in H3.
        apply nth_error_In in E. destruct (H3 _ E); congruence.
      * intros Hc. destruct (Hn (H2 Hc)).
Qed.

Lemma trun_inv tr : forall s, tinv s -> tinv (trun s tr).
Proof. unfold trun. induction tr as [|e tr IH]; cbn; intros s H; auto. apply IH, tstep_inv, H. Qed.

(** C03: no CancelTask is thrown into a task that is done (finished, or cancelled/closed before it started):
    at that moment every queued cancellation is revoked and [cancel()] does not create new ones *)
Theorem task_cancel_never_after_done tr :
  let s := trun tinit tr in
  t_late s = 0 /\ (t_done s = true -> Forall dead (t_cs s) /\ tstep s TCancel = s).
Proof.
  intros s. assert (Hi : tinv s).
  { apply trun_inv. unfold tinv. cbn. repeat split; auto; discriminate. }
  destruct Hi as (H1 & H2 & H3 & H4 & H5). split; auto. intros Hd. specialize (H4 Hd). split; auto.
  destruct s; cbn in *. subst. reflexivity.
Qed.
