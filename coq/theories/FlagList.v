(** A Flag and its inverse as two waiter lists (flag.py, condition.py, notification.py):
      Condition.__subscribe__   if the condition holds: schedule the subscriber at once, else append it to the waiting list
      Notification.__unsubscribe__  scheduled token: revoke, else remove exactly that pair
      Flag.set(to)              rising edge: value := True, wake ALL waiters of the flag;
                                falling edge: value := False, wake ALL waiters of ~flag;  no edge: nothing
    [side] says whether a subscription is to the flag or to its inverse.  Theorems for every history:
    nobody is ever parked on a side that currently holds; everybody parked is woken, in order, by the next edge to his
    side; only subscribers are woken. *)
From Coq Require Import List Arith Bool Lia.
Import ListNotations.

Definition sub := (nat * nat)%type.           (* (waiter, token) *)
Inductive op := Sub (inv : bool) (w t : nat) | Unsub (inv : bool) (w t : nat) | SetTo (b : bool).

Record fl := { value : bool; wf : list sub; wi : list sub; scheduled : list sub; revoked : list nat; errors : nat }.

Definition sub_eqb (a b : sub) : bool := Nat.eqb (fst a) (fst b) && Nat.eqb (snd a) (snd b).
Fixpoint remove_first (x : sub) (l : list sub) : option (list sub) :=
  match l with
  | [] => None
  | y :: r => if sub_eqb x y then Some r else option_map (cons y) (remove_first x r)
  end.
Definition is_scheduled (s : fl) (t : nat) : bool := existsb (fun p => Nat.eqb (snd p) t) (scheduled s).

(** does the side hold? *)
Definition holds (s : fl) (inv : bool) : bool := if inv then negb (value s) else value s.

Definition step (s : fl) (o : op) : fl :=
  match o with
  | Sub inv w t =>
      if holds s inv
      then {| value := value s; wf := wf s; wi := wi s; scheduled := scheduled s ++ [(w, t)]; revoked := revoked s; errors := errors s |}
      else if inv
      then {| value := value s; wf := wf s; wi := wi s ++ [(w, t)]; scheduled := scheduled s; revoked := revoked s; errors := errors s |}
      else {| value := value s; wf := wf s ++ [(w, t)]; wi := wi s; scheduled := scheduled s; revoked := revoked s; errors := errors s |}
  | Unsub inv w t =>
      if is_scheduled s t
      then {| value := value s; wf := wf s; wi := wi s; scheduled := scheduled s; revoked := revoked s ++ [t]; errors := errors s |}
      else match remove_first (w, t) (if inv then wi s else wf s) with
           | Some l => if inv
                       then {| value := value s; wf := wf s; wi := l; scheduled := scheduled s; revoked := revoked s; errors := errors s |}
                       else {| value := value s; wf := l; wi := wi s; scheduled := scheduled s; revoked := revoked s; errors := errors s |}
           | None => {| value := value s; wf := wf s; wi := wi s; scheduled := scheduled s; revoked := revoked s; errors := S (errors s) |}
           end
  | SetTo true =>
      if value s then s
      else {| value := true; wf := []; wi := wi s; scheduled := scheduled s ++ wf s; revoked := revoked s; errors := errors s |}
  | SetTo false =>
      if value s
      then {| value := false; wf := wf s; wi := []; scheduled := scheduled s ++ wi s; revoked := revoked s; errors := errors s |}
      else s
  end.

Definition init : fl := {| value := false; wf := []; wi := []; scheduled := []; revoked := []; errors := 0 |}.
Definition run (ops : list op) : fl := fold_left step ops init.

(** ** nobody is parked on a side that holds *)
Definition inv_ok (s : fl) : Prop := (value s = true -> wf s = []) /\ (value s = false -> wi s = []).

Lemma remove_first_nil x l : remove_first x [] = Some l -> False.
Proof. discriminate. Qed.

Lemma step_inv s o : inv_ok s -> inv_ok (step s o).
Proof.
  intros [Hf Hi]. destruct o as [inv w t|inv w t|b]; cbn.
  - unfold holds. destruct inv; destruct (value s) eqn:V; cbn; split; intros E; cbn in *; try congruence; auto.
  - destruct (is_scheduled s t); [split; assumption|].
    destruct inv.
    + destruct (remove_first (w, t) (wi s)) as [l|] eqn:R; cbn; split; try assumption.
      intros V. cbn in V. rewrite (Hi V) in R. discriminate R.
    + destruct (remove_first (w, t) (wf s)) as [l|] eqn:R; cbn; split; try assumption.
      intros V. cbn in V. rewrite (Hf V) in R. discriminate R.
  - destruct b; destruct (value s) eqn:V; cbn; split; intros E; cbn in *; try congruence; auto.
Qed.

Theorem never_parked_on_a_side_that_holds ops : inv_ok (run ops).
Proof.
  unfold run. assert (G : forall ops s, inv_ok s -> inv_ok (fold_left step ops s)).
  { clear ops. induction ops as [|o r IH]; intros s H; cbn; [exact H|]. apply IH. apply step_inv. exact H. }
  apply G. split; intros _; reflexivity.
Qed.

(** ** an edge wakes everybody parked on that side, oldest first, and nobody else *)
Theorem rising_edge_wakes_all_waiters ops : value (run ops) = false ->
  let s := run (ops ++ [SetTo true]) in
  scheduled s = scheduled (run ops) ++ wf (run ops) /\ wf s = [] /\ wi s = wi (run ops) /\ value s = true.
Proof. unfold run. rewrite fold_left_app. cbn. intros ->. cbn. repeat split. Qed.

Theorem falling_edge_wakes_all_waiters_of_the_inverse ops : value (run ops) = true ->
  let s := run (ops ++ [SetTo false]) in
  scheduled s = scheduled (run ops) ++ wi (run ops) /\ wi s = [] /\ wf s = wf (run ops) /\ value s = false.
Proof. unfold run. rewrite fold_left_app. cbn. intros ->. cbn. repeat split. Qed.

Theorem no_edge_wakes_nobody ops b : value (run ops) = b -> run (ops ++ [SetTo b]) = run ops.
Proof. unfold run. rewrite fold_left_app. cbn. intros E. destruct b; rewrite E; reflexivity. Qed.

(** subscribing to a side that holds is answered at once (C08: "completes in the current time step if c is true") *)
Theorem subscribe_when_true_is_scheduled_at_once ops inv w t : holds (run ops) inv = true ->
  let s := run (ops ++ [Sub inv w t]) in
  scheduled s = scheduled (run ops) ++ [(w, t)] /\ wf s = wf (run ops) /\ wi s = wi (run ops).
Proof. unfold run. rewrite fold_left_app. cbn. intros ->. cbn. repeat split. Qed.

Example ex_flag :
  let s := run [Sub false 1 10; Sub true 2 20; Sub false 3 30; SetTo true; Sub false 4 40; Sub true 5 50; SetTo true;
                Unsub true 5 50; SetTo false; Sub true 6 60] in
  scheduled s = [(2, 20); (1, 10); (3, 30); (4, 40); (6, 60)] /\ wf s = [] /\ wi s = [] /\ value s = false /\ errors s = 0.
Proof. vm_compute. repeat split. Qed.

(** ** nobody is lost: every subscriber of a history is still parked (on one of the two lists), or has been scheduled, or
    withdrew itself - whatever the interleaving of subscriptions, withdrawals and edges *)
Definition subs_of (ops : list op) : list sub :=
  flat_map (fun o => match o with Sub _ w t => [(w, t)] | _ => [] end) ops.
Definition unsubs_of (ops : list op) : list sub :=
  flat_map (fun o => match o with Unsub _ w t => [(w, t)] | _ => [] end) ops.
Definition accounted (s : fl) (p : sub) : Prop := In p (wf s) \/ In p (wi s) \/ In p (scheduled s).

Lemma sub_eqb_eq a b : sub_eqb a b = true -> a = b.
Proof.
  unfold sub_eqb. destruct a as [a1 a2], b as [b1 b2]; cbn. intros H.
  apply andb_prop in H. destruct H as [H1 H2]. apply Nat.eqb_eq in H1, H2. subst. reflexivity.
Qed.

Lemma remove_first_other x l : forall l' p, remove_first x l = Some l' -> In p l -> p = x \/ In p l'.
Proof.
  induction l as [|y l IH]; intros l' p H Hin; cbn in H; [discriminate|].
  destruct (sub_eqb x y) eqn:E.
  - inversion H; subst. apply sub_eqb_eq in E. subst. destruct Hin as [->|Hin]; auto.
  - destruct (remove_first x l) as [r|] eqn:Er; cbn in H; [|discriminate]. inversion H; subst.
    destruct Hin as [->|Hin]; [right; left; reflexivity|].
    destruct (IH r p eq_refl Hin) as [->|Hr]; [left; reflexivity|right; right; exact Hr].
Qed.

Lemma step_keeps s o p : accounted s p -> accounted (step s o) p \/ (exists inv, o = Unsub inv (fst p) (snd p)).
Proof.
  unfold accounted. intros H. destruct o as [inv w t|inv w t|b].
  - left. cbn. destruct (holds s inv); [|destruct inv]; cbn; rewrite ?in_app_iff; tauto.
  - cbn. destruct (is_scheduled s t); [left; cbn; tauto|].
    destruct inv.
    + destruct (remove_first (w, t) (wi s)) as [l|] eqn:E; [|left; cbn; tauto]. cbn.
      destruct H as [H|[H|H]]; [left; tauto| |left; tauto].
      destruct (remove_first_other _ _ _ _ E H) as [->|Hl]; [right; exists true; reflexivity|left; tauto].
    + destruct (remove_first (w, t) (wf s)) as [l|] eqn:E; [|left; cbn; tauto]. cbn.
      destruct H as [H|[H|H]]; [|left; tauto|left; tauto].
      destruct (remove_first_other _ _ _ _ E H) as [->|Hl]; [right; exists false; reflexivity|left; tauto].
  - left. destruct b; cbn; destruct (value s); cbn; rewrite ?in_app_iff; tauto.
Qed.

Lemma step_new s inv w t : accounted (step s (Sub inv w t)) (w, t).
Proof.
  unfold accounted. cbn. destruct (holds s inv); [|destruct inv]; cbn; rewrite ?in_app_iff; cbn; tauto.
Qed.

Theorem nobody_is_lost ops p : In p (subs_of ops) -> accounted (run ops) p \/ In p (unsubs_of ops).
Proof.
  unfold run.
  assert (G : forall ops s, accounted s p \/ In p (subs_of ops) ->
                            accounted (fold_left step ops s) p \/ In p (unsubs_of ops)).
  { clear ops. induction ops as [|o r IH]; intros s H; cbn.
    - destruct H as [H|H]; [left; exact H|destruct H].
    - assert (K : accounted (step s o) p \/ In p (subs_of r) \/ (exists inv, o = Unsub inv (fst p) (snd p))).
      { destruct H as [H|H].
        - destruct (step_keeps s o p H) as [H1|H1]; auto.
        - cbn in H. apply in_app_iff in H. destruct H as [H|H]; [|auto].
          destruct o as [inv w t|inv w t|b]; cbn in H; try contradiction.
          destruct H as [<-|[]]. left. apply step_new. }
      destruct K as [K|[K|[inv ->]]].
      + destruct (IH _ (or_introl K)) as [R|R]; [left; exact R|right; apply in_app_iff; right; exact R].
      + destruct (IH (step s o) (or_intror K)) as [R|R]; [left; exact R|right; apply in_app_iff; right; exact R].
      + right. cbn. left. destruct p; reflexivity. }
  intros H. apply (G ops init). right. exact H.
Qed.
