(* Layer P model of ONE usim Scope / InterruptScope (= until(n)) instance
   (usim/_primitives/context.py:105-358, task.py:118-227), its owner activity and its DIRECT
   children.  Children of children are further instances of the same protocol.

   The environment is fully nondeterministic: any label below may be issued at any time; a label
   the code cannot perform in the current state is disabled ([step] = None).  Every label is one
   atomic section of the Python code (between two suspension points of the acting coroutine):

     Spawn v          Scope.do(payload, volatile=v): not _interruptable -> try_close(payload), raise
                      ScopeClosed (recorded as a child that is Done Discarded, never listed, never run);
                      else Task(...) appended to _children / _volatile_children (status Created).
                      Accepted in Body AND during graceful shutdown (SetDone / AwaitChildren): late children.
     ChildStart i     first activation of the runner of a Created task (payload_wrapper, result None)
     ChildReap i      first activation of a task that was cancelled / closed before it started:
                      try_close(payload); __child_finished__(failed=False) -> removed from the list.
                      Only these wrapper lines run, never the payload (may happen after the scope exit)
     ChildStep i      a running child resumes at one of its suspension points and suspends again
     ChildReturn i    payload returns: result set, __child_finished__(failed=False)
     ChildFail i      payload raises: __child_finished__(failed=True): if _interruptable schedule
                      _cancel_self at the owner; failure recorded
     ChildCancel i    Task.cancel: Created -> result TaskCancelled, done set at once, never runs (stays in
                      the list until ChildReap); Running -> CancelTask delivered at a suspension point:
                      ends cancelled, failed=False (scheduling and delivery merged: the environment may
                      do anything in between anyway)
     Fire             (until only) the notification fires: __awake_all__ schedules the interrupt NOW
     BodyStep         the body resumes at a suspension point and runs more body code
     BodyReturn       the body ends without exception: __aexit__(None): `await _body_done.set()` postpones
     BodyRaise        the body raises: __aexit__(exc): _body_done triggered, _close_scope (no suspension)
     DeliverCancelSelf / DeliverInterrupt / DeliverForeign
                      the owner, suspended in Body / SetDone / AwaitChildren, receives its own _cancel_self,
                      its own until-interrupt, or a foreign exception (cancel by an outer scope,
                      GeneratorExit of a close): every one of them ends in _close_scope
     AwaitStep        the owner resumes in `await _body_done.set()` / `_await_children` and evaluates
                      `while self._children`: it can only be left when the NON-VOLATILE list is empty
     AwaitWait        the owner resumes inside `for child in self._children[:]: await child.done` and suspends again
                      on the next task of the COPY: a task of the copy that is done already costs one postponement
                      (Condition.__await__), whatever `_children` has become meanwhile - even empty.  The scope stays
                      open (do() is accepted) until the copy is through and `while self._children` is evaluated
                      (AwaitStep).  Found by the replay correspondence (harness/scopecorr.py): two children end in
                      one time step, the owner is postponed on the second one with an empty list, a volatile child
                      spawns into the scope just then - accepted and waited for.
     CloseChild i d   one iteration of _close_children / _close_volatile (Task.__close__): Created -> result
                      := reason, done set (stays listed until ChildReap); Running -> runner.close() unwinds
                      synchronously (d = the unwinding code raised something else: failed=True).
                      Volatile children only when every non-volatile child is finished (_close_volatile
                      runs after _close_children).
     FinishClose      both loops are through (every task still in a list has been closed):
                      _propagate_exceptions, the block is left
     Tick             virtual time advances: only when no activation for `now` is pending for the owner
                      (kernel: a time step is drained before the next begins, KernelProps) and not inside
                      the synchronous _close_scope
   _disable_interrupts (unsubscribe / revoke the until-interrupt, _interruptable := False, revoke
   _cancel_self) is the first thing _close_scope does: [enter_closing].
*)
Require Import List Bool Arith.
Import ListNotations.

Inductive how := Success | Failed | CancelledInd | ClosedScope | ClosedVolatile | Discarded.
Inductive cstatus := Created | Running | Done (h : how).
Inductive cause := CGraceful | COwnCancel | COwnInterrupt | CBodyExc | CForeign.
Inductive outcome := NoExc | ChildExc | BodyExc | ForeignExc.
Inductive phase := Body | SetDone | AwaitChildren | Closing (c : cause) | Exited (c : cause) (o : outcome).
Inductive sigst := Idle | Scheduled | Revoked.
Inductive isub := NoIntr | Subscribed | IScheduled | IRevoked | IDelivered | Unsubscribed.
Inductive skind := Plain | Until (true_on_entry : bool).

Record child := mkChild {
  vol : bool;       (* volatile=True *)
  st : cstatus;
  listed : bool;    (* still in _children / _volatile_children *)
  ran : bool;       (* ghost: the runner got past the pre-run check (payload may have run) *)
  late : bool       (* ghost: spawned after the body had ended *)
}.

Record state := mkSt {
  ph : phase;
  interruptable : bool;
  cs : sigst;               (* _cancel_self *)
  intr : isub;              (* the until-interrupt *)
  kids : list child;        (* every child ever passed to do(), id = position *)
  bsteps : nat;             (* ghost: number of body resumptions *)
  cwork : nat;              (* ghost: number of atomic sections of child payload code *)
  now : nat;
  fired_at : option nat;    (* ghost: time at which the interrupt was scheduled *)
  exited_at : option nat    (* ghost *)
}.

Definition set_ph p s := mkSt p (interruptable s) (cs s) (intr s) (kids s) (bsteps s) (cwork s) (now s) (fired_at s) (exited_at s).
Definition set_cs x s := mkSt (ph s) (interruptable s) x (intr s) (kids s) (bsteps s) (cwork s) (now s) (fired_at s) (exited_at s).
Definition set_intr x s := mkSt (ph s) (interruptable s) (cs s) x (kids s) (bsteps s) (cwork s) (now s) (fired_at s) (exited_at s).
Definition set_kids x s := mkSt (ph s) (interruptable s) (cs s) (intr s) x (bsteps s) (cwork s) (now s) (fired_at s) (exited_at s).
Definition body_work s := mkSt (ph s) (interruptable s) (cs s) (intr s) (kids s) (S (bsteps s)) (cwork s) (now s) (fired_at s) (exited_at s).
Definition work s := mkSt (ph s) (interruptable s) (cs s) (intr s) (kids s) (bsteps s) (S (cwork s)) (now s) (fired_at s) (exited_at s).
Definition tick s := mkSt (ph s) (interruptable s) (cs s) (intr s) (kids s) (bsteps s) (cwork s) (S (now s)) (fired_at s) (exited_at s).
Definition set_fired s := mkSt (ph s) (interruptable s) (cs s) (intr s) (kids s) (bsteps s) (cwork s) (now s) (Some (now s)) (exited_at s).
Definition set_exited s := mkSt (ph s) (interruptable s) (cs s) (intr s) (kids s) (bsteps s) (cwork s) (now s) (fired_at s) (Some (now s)).

Definition active (p : phase) : bool := match p with Body | SetDone | AwaitChildren => true | _ => false end.
Definition isclosing (p : phase) : bool := match p with Closing _ => true | _ => false end.
Definition isdone (c : child) : bool := match st c with Done _ => true | _ => false end.
Definition isfailed (c : child) : bool := match st c with Done Failed => true | _ => false end.
Definition nv_done (c : child) : bool := vol c || isdone c.
Definition pending_nv (c : child) : bool := negb (vol c) && listed c.
Definition closed_ok (c : child) : bool := negb (listed c) || isdone c.
Definition inert (i : isub) : bool := match i with Subscribed | IScheduled => false | _ => true end.

Definition unsub (i : isub) : isub :=
  match i with Subscribed => Unsubscribed | IScheduled => IRevoked | x => x end.
(* _disable_interrupts, the head of _close_scope *)
Definition enter_closing (c : cause) (s : state) : state :=
  mkSt (Closing c) false Revoked (unsub (intr s)) (kids s) (bsteps s) (cwork s) (now s) (fired_at s) (exited_at s).
(* Scope.__cancel__ *)
Definition sched_cs (s : state) : state := if interruptable s then set_cs Scheduled s else s.
(* _propagate_exceptions, abstracted to who is to blame *)
Definition outcome_of (c : cause) (child_failed : bool) : outcome :=
  match c with
  | CGraceful | COwnCancel | COwnInterrupt => if child_failed then ChildExc else NoExc
  | CBodyExc => BodyExc
  | CForeign => ForeignExc
  end.

Fixpoint upd {A} (i : nat) (x : A) (l : list A) {struct l} : list A :=
  match l, i with
  | [], _ => []
  | _ :: r, 0 => x :: r
  | y :: r, S j => y :: upd j x r
  end.

Definition fin (h : how) (c : child) : child := mkChild (vol c) (Done h) false (ran c) (late c).
Definition set_st (x : cstatus) (c : child) : child := mkChild (vol c) x (listed c) (ran c) (late c).
Definition closedhow (c : child) : how := if vol c then ClosedVolatile else ClosedScope.
Definition accepted (v l : bool) : child := mkChild v Created true false l.
Definition refused (v : bool) : child := mkChild v (Done Discarded) false false false.

Definition on_child (s : state) (i : nat) (f : child -> option child) (g : child -> state -> state) : option state :=
  match nth_error (kids s) i with
  | Some c => match f c with
              | Some c' => Some (g c (set_kids (upd i c' (kids s)) s))
              | None => None
              end
  | None => None
  end.

Inductive label :=
  | Spawn (v : bool) | ChildStart (i : nat) | ChildReap (i : nat) | ChildStep (i : nat)
  | ChildReturn (i : nat) | ChildFail (i : nat) | ChildCancel (i : nat)
  | Fire | BodyStep | BodyReturn | BodyRaise
  | DeliverCancelSelf | DeliverInterrupt | DeliverForeign
  | AwaitStep | AwaitWait | CloseChild (i : nat) (dirty : bool) | FinishClose | Tick.

Definition running_only (c : child) (r : child) : option child :=
  match st c with Running => Some r | _ => None end.

Definition step (s : state) (l : label) : option state :=
  match l with
  | Spawn v =>
      Some (set_kids (kids s ++ [if interruptable s
                                 then accepted v (match ph s with Body => false | _ => true end)
                                 else refused v]) s)
  | ChildStart i =>
      if isclosing (ph s) then None else
      on_child s i (fun c => match st c with
                             | Created => Some (mkChild (vol c) Running (listed c) true (late c))
                             | _ => None end) (fun _ => work)
  | ChildReap i =>
      if isclosing (ph s) then None else
      on_child s i (fun c => if isdone c && listed c
                             then Some (mkChild (vol c) (st c) false (ran c) (late c)) else None)
               (fun _ x => x)
  | ChildStep i =>
      if isclosing (ph s) then None else on_child s i (fun c => running_only c c) (fun _ => work)
  | ChildReturn i =>
      if isclosing (ph s) then None else on_child s i (fun c => running_only c (fin Success c)) (fun _ => work)
  | ChildFail i =>
      if isclosing (ph s) then None else
      on_child s i (fun c => running_only c (fin Failed c)) (fun _ x => work (sched_cs x))
  | ChildCancel i =>
      on_child s i (fun c => match st c with
                             | Created => Some (set_st (Done CancelledInd) c)
                             | Running => if isclosing (ph s) then None else Some (fin CancelledInd c)
                             | Done _ => None end)
               (fun c x => match st c with Running => work x | _ => x end)
  | Fire => match intr s with Subscribed => Some (set_fired (set_intr IScheduled s)) | _ => None end
  | BodyStep => match ph s with Body => Some (body_work s) | _ => None end
  | BodyReturn => match ph s with Body => Some (set_ph SetDone s) | _ => None end
  | BodyRaise => match ph s with Body => Some (enter_closing CBodyExc s) | _ => None end
  | DeliverCancelSelf =>
      if active (ph s) then match cs s with Scheduled => Some (enter_closing COwnCancel s) | _ => None end
      else None
  | DeliverInterrupt =>
      if active (ph s)
      then match intr s with
           | IScheduled => Some (set_intr IDelivered (enter_closing COwnInterrupt s))
           | _ => None end
      else None
  | DeliverForeign => if active (ph s) then Some (enter_closing CForeign s) else None
  | AwaitStep =>
      match ph s with
      | SetDone | AwaitChildren =>
          Some (if existsb pending_nv (kids s) then set_ph AwaitChildren s else enter_closing CGraceful s)
      | _ => None
      end
  | AwaitWait => match ph s with AwaitChildren => Some s | _ => None end
  | CloseChild i d =>
      match ph s with
      | Closing _ =>
          on_child s i (fun c => if vol c && negb (forallb nv_done (kids s)) then None else
                                 match st c with
                                 | Created => Some (set_st (Done (closedhow c)) c)
                                 | Running => Some (fin (if d then Failed else closedhow c) c)
                                 | Done _ => None end)
                   (fun c x => match st c with Running => work x | _ => x end)
      | _ => None
      end
  | FinishClose =>
      match ph s with
      | Closing c =>
          if forallb closed_ok (kids s)
          then Some (set_exited (set_ph (Exited c (outcome_of c (existsb isfailed (kids s)))) s))
          else None
      | _ => None
      end
  | Tick =>
      if isclosing (ph s) then None else
      match cs s, intr s with
      | Scheduled, _ => None
      | _, IScheduled => None
      | _, _ => Some (tick s)
      end
  end.

Definition init (k : skind) : state :=
  mkSt Body true Idle
       (match k with Plain => NoIntr | Until true => IScheduled | Until false => Subscribed end)
       [] 0 0 0 (match k with Until true => Some 0 | _ => None end) None.

Inductive reachable (k : skind) : state -> Prop :=
  | r_init : reachable k (init k)
  | r_step : forall s l s', reachable k s -> step s l = Some s' -> reachable k s'.

Fixpoint run (s : state) (ls : list label) : option state :=
  match ls with
  | [] => Some s
  | l :: r => match step s l with Some s' => run s' r | None => None end
  end.

Lemma reachable_run : forall k ls s s', reachable k s -> run s ls = Some s' -> reachable k s'.
Proof.
  induction ls; simpl; intros s s' R H.
  - inversion H; subst; exact R.
  - destruct (step s a) eqn:E; [|discriminate]. eapply IHls; [eapply r_step; eauto|exact H].
Qed.
