(** C14 -- proofs about the model of interval()/delay() in Ticker.v *)
From Coq Require Import List ZArith Bool Lia.
From Usim Require Import Ticker.
Import ListNotations.
Open Scope Z_scope.

(** ---------- unfolding ---------- *)

Lemma interval_loop_exceeded H p last now ds :
  last + p - now < 0 -> interval_loop H p last now ds = ([], Exceeded).
Proof.
  intros Hr. destruct ds; cbn -[Z.ltb Z.add Z.sub];
    destruct (Z.ltb_spec (last + p - now) 0); try lia; reflexivity.
Qed.

(** a step that does not raise resumes exactly at last + p, whichever branch is taken *)
Lemma step_date last p now :
  0 <= last + p - now ->
  wait (if 0 <? last + p - now then Suspend (last + p - now) else Postpone) now = last + p.
Proof.
  intros Hr. destruct (Z.ltb_spec 0 (last + p - now)); cbn [wait]; lia.
Qed.

Definition step_how (last p now : Z) : how :=
  if 0 <? last + p - now then Suspend (last + p - now) else Postpone.

Lemma interval_loop_step p last now ds :
  0 <= last + p - now ->
  interval_loop None p last now ds =
    let tk := mkTick (last + p) (last + p) (step_how last p now) in
    match ds with
    | [] => ([tk], Completed)
    | d :: ds' => let '(l, o) := interval_loop None p (last + p) (last + p + d) ds' in (tk :: l, o)
    end.
Proof.
  intros Hr. unfold step_how.
  destruct ds; cbn -[Z.ltb Z.add Z.sub wait];
    destruct (Z.ltb_spec (last + p - now) 0); try lia;
    rewrite (step_date last p now Hr), !andb_false_r; reflexivity.
Qed.

Lemma delay_loop_step h now ds :
  delay_loop None h now ds =
    let tk := mkTick (wait h now) (wait h now) h in
    match ds with
    | [] => ([tk], Completed)
    | d :: ds' => let '(l, o) := delay_loop None h (wait h now + d) ds' in (tk :: l, o)
    end.
Proof.
  destruct ds; cbn -[Z.ltb Z.add wait]; rewrite !andb_false_r; reflexivity.
Qed.

(** ---------- first_over is what its name says ---------- *)

Lemma first_over_spec p ds k :
  first_over p ds = Some k <->
  (exists d, nth_error ds k = Some d /\ p < d) /\
  (forall j d, (j < k)%nat -> nth_error ds j = Some d -> d <= p).
Proof.
  revert k. induction ds as [|d ds IH]; intros k; cbn [first_over].
  - split; [discriminate|]. intros [[d [Hd _]] _]. destruct k; discriminate.
  - destruct (Z.ltb_spec p d) as [Hlt|Hge].
    + split.
      * intros E. inversion E; subst k. split; [exists d; split; [reflexivity|lia]|]. intros; lia.
      * intros [[d' [Hd' Hp]] Hall]. destruct k as [|k]; [reflexivity|].
        specialize (Hall O d (Nat.lt_0_succ k) eq_refl). lia.
    + destruct (first_over p ds) as [k'|] eqn:E; cbn [option_map].
      * split.
        -- intros E'. inversion E'; subst k. destruct (proj1 (IH k') eq_refl) as [Hex Hall].
           split; [exact Hex|]. intros [|j] d' Hj Hn; cbn in Hn.
           ++ inversion Hn; subst; lia.
           ++ apply (Hall j d'); [lia|exact Hn].
        -- intros [[d' [Hd' Hp]] Hall]. destruct k as [|k]; cbn in Hd'.
           ++ inversion Hd'; subst; lia.
           ++ f_equal. assert (Hk : Some k' = Some k); [|inversion Hk; reflexivity].
              apply IH. split; [exists d'; auto|]. intros j d'' Hj Hn. apply (Hall (S j) d''); [lia|exact Hn].
      * split; [discriminate|]. intros [[d' [Hd' Hp]] Hall]. destruct k as [|k]; cbn in Hd'.
        -- inversion Hd'; subst; lia.
        -- assert (Hk : None = Some k); [|discriminate].
           apply IH. split; [exists d'; auto|]. intros j d'' Hj Hn. apply (Hall (S j) d''); [lia|exact Hn].
Qed.

Lemma first_over_none p ds :
  first_over p ds = None <-> Forall (fun d => d <= p) ds.
Proof.
  induction ds as [|d ds IH]; cbn [first_over]; [split; auto|].
  destruct (Z.ltb_spec p d).
  - split; [discriminate|]. intros F. inversion F; lia.
  - destruct (first_over p ds); cbn [option_map].
    + split; [discriminate|]. intros F. inversion F; subst. apply IH in H3. discriminate.
    + split; auto. intros _. constructor; [lia|]. apply IH; reflexivity.
Qed.

(** ---------- interval ---------- *)

(** every tick that happens is on the grid *)
Lemma interval_loop_grid ds : forall p last now l o,
  interval_loop None p last now ds = (l, o) ->
  forall k tk, nth_error l k = Some tk -> tk_time tk = last + (Z.of_nat k + 1) * p.
Proof.
  induction ds as [|d ds IH]; intros p last now l o E k tk Hk.
  - destruct (Z.ltb_spec (last + p - now) 0) as [Hr|Hr].
    + rewrite interval_loop_exceeded in E by lia. inversion E; subst. destruct k; discriminate.
    + rewrite interval_loop_step in E by lia. cbn zeta in E. inversion E; subst.
      destruct k as [|[|k]]; cbn in Hk; try discriminate. inversion Hk; subst; cbn [tk_time Z.of_nat]. lia.
  - destruct (Z.ltb_spec (last + p - now) 0) as [Hr|Hr].
    + rewrite interval_loop_exceeded in E by lia. inversion E; subst. destruct k; discriminate.
    + rewrite interval_loop_step in E by lia. cbn zeta in E.
      destruct (interval_loop None p (last + p) (last + p + d) ds) as [l' o'] eqn:E'.
      inversion E; subst. destruct k as [|k]; cbn in Hk.
      * inversion Hk; subst; cbn [tk_time Z.of_nat]. lia.
      * rewrite (IH _ _ _ _ _ E' k tk Hk). lia.
Qed.

(** number of ticks and outcome, from the position of the first over-long body *)
Lemma interval_loop_outcome ds : forall p last now l o,
  now <= last + p ->
  interval_loop None p last now ds = (l, o) ->
  match first_over p ds with
  | Some k => o = Exceeded /\ length l = S k
  | None => o = Completed /\ length l = S (length ds)
  end.
Proof.
  induction ds as [|d ds IH]; intros p last now l o Hn E;
    rewrite interval_loop_step in E by lia; cbn zeta in E.
  - inversion E; subst. cbn. auto.
  - destruct (interval_loop None p (last + p) (last + p + d) ds) as [l' o'] eqn:E'.
    inversion E; subst. cbn [first_over].
    destruct (Z.ltb_spec p d) as [Hlt|Hge].
    + rewrite interval_loop_exceeded in E' by lia. inversion E'; subst. cbn. auto.
    + specialize (IH p (last + p) (last + p + d) l' o ltac:(lia) E').
      destruct (first_over p ds); cbn [option_map length]; destruct IH as [-> ->]; auto.
Qed.

Lemma interval_loop_values ds : forall H p last now l o,
  interval_loop H p last now ds = (l, o) ->
  Forall (fun tk => tk_value tk = tk_time tk /\
                    (tk_how tk = Postpone \/ exists r, 0 < r /\ tk_how tk = Suspend r)) l.
Proof.
  induction ds as [|d ds IH]; intros H p last now l o E; cbn -[Z.ltb Z.add Z.sub wait] in E;
    destruct (last + p - now <? 0); try (inversion E; subst; constructor; fail);
    match type of E with context [is_suspend ?h && cut H ?t] => destruct (is_suspend h && cut H t) end;
    try (inversion E; subst; constructor; fail).
  - inversion E; subst. constructor; [|constructor]. cbn. split; [reflexivity|].
    destruct (Z.ltb_spec 0 (last + p - now)); [right; eexists; split; [eassumption|reflexivity]|left; reflexivity].
  - assert (Hhd : forall h, h = (if 0 <? last + p - now then Suspend (last + p - now) else Postpone) ->
                   h = Postpone \/ exists r, 0 < r /\ h = Suspend r).
    { intros h ->. destruct (Z.ltb_spec 0 (last + p - now)); [right; eexists; split; [eassumption|reflexivity]|left; reflexivity]. }
    match type of E with context [(0 <? d) && cut H ?t] => destruct ((0 <? d) && cut H t) end.
    + inversion E; subst. constructor; [|constructor]. cbn. split; [reflexivity|apply Hhd; reflexivity].
    + match type of E with context [interval_loop H p ?a ?b ds] =>
        destruct (interval_loop H p a b ds) as [l' o'] eqn:E' end.
      inversion E; subst. constructor; [|eapply IH; eassumption].
      cbn. split; [reflexivity|apply Hhd; reflexivity].
Qed.

Section Interval.
Variables (start p : Z) (ds : list Z) (l : list tick) (o : outcome).
Hypothesis Hp : 0 <= p.
Hypothesis Hrun : interval_run None start p ds = (l, o).

Lemma interval_run_loop : interval_loop None p start start ds = (l, o).
Proof. unfold interval_run in Hrun. destruct (Z.ltb_spec p 0); [lia|exact Hrun]. Qed.

(** the k-th body (k = 0, 1, ...) is resumed at start + (k+1) p, whatever the earlier bodies did *)
Theorem interval_on_grid : forall k tk,
  nth_error l k = Some tk -> tk_time tk = start + (Z.of_nat k + 1) * p.
Proof. intros. eapply interval_loop_grid; [exact interval_run_loop|eassumption]. Qed.

(** ... and that tick does happen as long as every earlier body took at most p *)
Theorem interval_grid : forall k,
  (k <= length ds)%nat ->
  (forall j d, (j < k)%nat -> nth_error ds j = Some d -> d <= p) ->
  exists tk, nth_error l k = Some tk /\ tk_time tk = start + (Z.of_nat k + 1) * p /\ tk_value tk = tk_time tk.
Proof.
  intros k Hk Hall.
  assert (Ho := interval_loop_outcome ds p start start l o ltac:(lia) interval_run_loop).
  assert (Hlen : (k < length l)%nat).
  { destruct (first_over p ds) as [k0|] eqn:E.
    - destruct Ho as [_ ->]. apply first_over_spec in E. destruct E as [[d [Hd Hlt]] _].
      destruct (Nat.lt_ge_cases k0 k) as [Hc|Hc]; [|lia].
      specialize (Hall k0 d Hc Hd). lia.
    - destruct Ho as [_ ->]. lia. }
  destruct (nth_error l k) as [tk|] eqn:E; [|apply nth_error_None in E; lia].
  exists tk. split; [reflexivity|]. split; [apply (interval_on_grid k tk E)|].
  assert (F := interval_loop_values ds None p start start l o interval_run_loop).
  rewrite Forall_forall in F. apply (F tk). eapply nth_error_In; eassumption.
Qed.

(** IntervalExceeded is raised exactly at the first body that took longer than p: the ticks before
    and including that body happen, then the exception; with no such body nothing is raised *)
Theorem interval_exceeded_at :
  match first_over p ds with
  | Some k => o = Exceeded /\ length l = S k
  | None => o = Completed /\ length l = S (length ds)
  end.
Proof. apply (interval_loop_outcome ds p start start l o); [lia|exact interval_run_loop]. Qed.

Theorem interval_exceeded_iff : o = Exceeded <-> Exists (fun d => p < d) ds.
Proof.
  assert (Ho := interval_exceeded_at).
  destruct (first_over p ds) as [k|] eqn:E.
  - destruct Ho as [-> _]. split; [intros _|reflexivity].
    apply first_over_spec in E. destruct E as [[d [Hd Hlt]] _].
    apply Exists_exists. exists d. split; [eapply nth_error_In; eassumption|lia].
  - destruct Ho as [-> _]. split; [discriminate|]. intros Hex.
    apply first_over_none in E. apply Exists_exists in Hex. destruct Hex as [d [Hin Hlt]].
    rewrite Forall_forall in E. specialize (E d Hin). lia.
Qed.

(** the only outcomes of an un-nested interval with p >= 0 *)
Theorem interval_outcomes : o = Completed \/ o = Exceeded.
Proof. assert (Ho := interval_exceeded_at). destruct (first_over p ds); destruct Ho; auto. Qed.

End Interval.

(** ---------- delay ---------- *)

Lemma delay_loop_spec ds : forall h now l o,
  delay_loop None h now ds = (l, o) ->
  o = Completed /\ length l = S (length ds) /\
  (forall tk, nth_error l 0 = Some tk -> tk_time tk = wait h now) /\
  (forall k a b d, nth_error l k = Some a -> nth_error l (S k) = Some b -> nth_error ds k = Some d ->
                   tk_time b = wait h (tk_time a + d)) /\
  (forall k tk, nth_error l k = Some tk ->
                tk_time tk = now + (Z.of_nat k + 1) * (wait h 0) + sum_firstn k ds).
Proof.
  induction ds as [|d ds IH]; intros h now l o E; rewrite delay_loop_step in E; cbn zeta in E.
  - inversion E; subst. repeat split; try reflexivity.
    + intros tk Hk. inversion Hk; reflexivity.
    + intros k a b d _ Hb. destruct k; discriminate.
    + intros [|[|k]] tk Hk; cbn in Hk; try discriminate. inversion Hk; subst; cbn [tk_time Z.of_nat sum_firstn].
      destruct h; cbn [wait]; lia.
  - destruct (delay_loop None h (wait h now + d) ds) as [l' o'] eqn:E'.
    inversion E; subst. destruct (IH _ _ _ _ E') as (Ho & Hlen & Hfirst & Hspan & Hclosed).
    repeat split.
    + exact Ho.
    + cbn [length]. rewrite Hlen. reflexivity.
    + intros tk Hk. inversion Hk; reflexivity.
    + intros [|k] a b d' Ha Hb Hd; cbn in Ha, Hb, Hd.
      * inversion Ha; inversion Hd; subst. cbn [tk_time]. apply Hfirst. exact Hb.
      * eapply Hspan; eassumption.
    + intros [|k] tk Hk; cbn in Hk.
      * inversion Hk; subst; cbn [tk_time Z.of_nat sum_firstn]. destruct h; cbn [wait]; lia.
      * rewrite (Hclosed k tk Hk). cbn [sum_firstn].
        replace (Z.of_nat (S k)) with (Z.of_nat k + 1) by lia.
        destruct h; cbn [wait]; lia.
Qed.

Lemma delay_loop_values ds : forall H h now l o,
  delay_loop H h now ds = (l, o) ->
  Forall (fun tk => tk_value tk = tk_time tk /\ tk_how tk = h) l.
Proof.
  induction ds as [|d ds IH]; intros H h now l o E; cbn -[Z.ltb Z.add wait] in E;
    match type of E with context [is_suspend h && cut H ?t] => destruct (is_suspend h && cut H t) end;
    try (inversion E; subst; constructor; fail).
  - inversion E; subst. constructor; [|constructor]. cbn; auto.
  - match type of E with context [(0 <? d) && cut H ?t] => destruct ((0 <? d) && cut H t) end.
    + inversion E; subst. constructor; [|constructor]. cbn; auto.
    + match type of E with context [delay_loop H h ?b ds] =>
        destruct (delay_loop H h b ds) as [l' o'] eqn:E' end.
      inversion E; subst. constructor; [cbn; auto|eapply IH; eassumption].
Qed.

Section Delay.
Variables (start p : Z) (ds : list Z) (l : list tick) (o : outcome).
Hypothesis Hp : 0 <= p.
Hypothesis Hrun : delay_run None start p ds = (l, o).

Let h := if 0 <? p then Suspend p else Postpone.

Lemma delay_run_loop : delay_loop None h start ds = (l, o).
Proof. unfold delay_run in Hrun. destruct (Z.ltb_spec p 0); [lia|exact Hrun]. Qed.

Lemma delay_wait t : wait h t = t + p.
Proof. unfold h. destruct (Z.ltb_spec 0 p); cbn [wait]; lia. Qed.

(** delay never raises, runs every body, and pauses exactly p after the end of each body run *)
Theorem delay_span :
  o = Completed /\ length l = S (length ds) /\
  (forall tk, nth_error l 0 = Some tk -> tk_time tk = start + p) /\
  (forall k a b d, nth_error l k = Some a -> nth_error l (S k) = Some b -> nth_error ds k = Some d ->
                   tk_time b = (tk_time a + d) + p).
Proof.
  destruct (delay_loop_spec ds h start l o delay_run_loop) as (Ho & Hlen & Hfirst & Hspan & _).
  repeat split; auto.
  - intros tk Hk. rewrite (Hfirst tk Hk). apply delay_wait.
  - intros k a b d Ha Hb Hd. rewrite (Hspan k a b d Ha Hb Hd). apply delay_wait.
Qed.

(** closed form: k-th tick at start + (k+1) p + d_0 + ... + d_(k-1) *)
Theorem delay_closed_form : forall k tk,
  nth_error l k = Some tk -> tk_time tk = start + (Z.of_nat k + 1) * p + sum_firstn k ds.
Proof.
  destruct (delay_loop_spec ds h start l o delay_run_loop) as (_ & _ & _ & _ & Hc).
  intros k tk Hk. rewrite (Hc k tk Hk). rewrite delay_wait. lia.
Qed.

End Delay.

(** ---------- both ---------- *)

(** the value yielded is the time at which the body is resumed *)
Theorem yield_is_now : forall H start p ds l o,
  (interval_run H start p ds = (l, o) \/ delay_run H start p ds = (l, o)) ->
  Forall (fun tk => tk_value tk = tk_time tk) l.
Proof.
  intros H start p ds l o [E|E].
  - unfold interval_run in E. destruct (p <? 0); [inversion E; constructor|].
    eapply Forall_impl; [|eapply interval_loop_values; eassumption]. cbn; tauto.
  - unfold delay_run in E. destruct (p <? 0); [inversion E; constructor|].
    eapply Forall_impl; [|eapply delay_loop_values; eassumption]. cbn; tauto.
Qed.

(** a negative period is rejected before anything else happens, nested or not *)
Theorem negative_rejected : forall H start p ds,
  p < 0 -> interval_run H start p ds = ([], ValueErr) /\ delay_run H start p ds = ([], ValueErr).
Proof.
  intros H start p ds Hp. unfold interval_run, delay_run.
  destruct (Z.ltb_spec p 0); [auto|lia].
Qed.

(** every step hands control to the loop: postpone() or suspend(r) with r > 0 -- never neither;
    with p = 0 every step is a postpone() *)
Theorem always_yields : forall H start p ds l o,
  0 <= p ->
  (interval_run H start p ds = (l, o) \/ delay_run H start p ds = (l, o)) ->
  Forall (fun tk => tk_how tk = Postpone \/ exists r, 0 < r /\ tk_how tk = Suspend r) l.
Proof.
  intros H start p ds l o Hp [E|E].
  - unfold interval_run in E. destruct (p <? 0); [inversion E; constructor|].
    eapply Forall_impl; [|eapply interval_loop_values; eassumption]. cbn; tauto.
  - unfold delay_run in E. destruct (p <? 0); [inversion E; constructor|].
    eapply Forall_impl; [|eapply delay_loop_values; eassumption].
    cbn. intros tk [_ ->]. destruct (Z.ltb_spec 0 p); [right; exists p; auto|left; reflexivity].
Qed.

Lemma interval_loop_zero ds : forall H last now l o,
  Forall (fun d => 0 <= d) ds ->
  last <= now ->
  interval_loop H 0 last now ds = (l, o) -> Forall (fun tk => tk_how tk = Postpone) l.
Proof.
  induction ds as [|d ds IH]; intros H last now l o Hds Hn E; cbn -[Z.ltb Z.add Z.sub wait] in E;
    destruct (Z.ltb_spec (last + 0 - now) 0); try (inversion E; subst; constructor; fail);
    (destruct (Z.ltb_spec 0 (last + 0 - now)); [lia|]); cbn -[Z.ltb Z.add] in E.
  - inversion E; subst. constructor; [reflexivity|constructor].
  - destruct ((0 <? d) && cut H (now + d)) eqn:Ec.
    + inversion E; subst. constructor; [reflexivity|constructor].
    + destruct (interval_loop H 0 now (now + d) ds) as [l' o'] eqn:E'.
      inversion E; subst. constructor; [reflexivity|].
      destruct (Z.ltb_spec (now + 0 - (now + d)) 0) as [Hlt|Hge].
      * rewrite interval_loop_exceeded in E' by lia. inversion E'; constructor.
      * inversion Hds; subst. eapply (IH H now (now + d)); [assumption|lia|exact E'].
Qed.

Theorem zero_period_postpones : forall H start ds l o,
  Forall (fun d => 0 <= d) ds ->
  (interval_run H start 0 ds = (l, o) \/ delay_run H start 0 ds = (l, o)) ->
  Forall (fun tk => tk_how tk = Postpone) l.
Proof.
  intros H start ds l o Hds [E|E].
  - eapply (interval_loop_zero ds H start start); [exact Hds|lia|exact E].
  - unfold delay_run in E. cbn in E.
    eapply Forall_impl; [|eapply delay_loop_values; exact E]. cbn; tauto.
Qed.

(** ---------- nesting in until(): only a prefix of the same ticks is seen ---------- *)

Lemma interval_loop_prefix ds : forall H p last now l o,
  interval_loop H p last now ds = (l, o) ->
  exists l' o', interval_loop None p last now ds = (l ++ l', o') /\
                (o <> Interrupted -> l' = [] /\ o' = o).
Proof.
  induction ds as [|d ds IH]; intros H p last now l o E.
  - cbn -[Z.ltb Z.add Z.sub wait] in *. destruct (last + p - now <? 0).
    + inversion E; subst. exists [], Exceeded. auto.
    + rewrite andb_false_r.
      match type of E with context [is_suspend ?h && cut H ?t] => destruct (is_suspend h && cut H t) end.
      * inversion E; subst. eexists _, _. split; [reflexivity|]. intros C; congruence.
      * inversion E; subst. exists [], Completed. auto.
  - cbn -[Z.ltb Z.add Z.sub wait] in *. destruct (last + p - now <? 0).
    + inversion E; subst. exists [], Exceeded. auto.
    + rewrite !andb_false_r.
      match type of E with context [is_suspend ?h && cut H ?t] => destruct (is_suspend h && cut H t) end.
      * inversion E; subst.
        match goal with |- context [interval_loop None p ?a ?b ds] =>
          destruct (interval_loop None p a b ds) as [l1 o1] end.
        eexists _, _. split; [reflexivity|]. intros C; congruence.
      * match type of E with context [(0 <? d) && cut H ?t] => destruct ((0 <? d) && cut H t) end.
        -- inversion E; subst.
           match goal with |- context [interval_loop None p ?a ?b ds] =>
             destruct (interval_loop None p a b ds) as [l1 o1] end.
           exists l1, o1. split; [reflexivity|]. intros C; congruence.
        -- match type of E with context [interval_loop H p ?a ?b ds] =>
             destruct (interval_loop H p a b ds) as [l2 o2] eqn:E2 end.
           inversion E; subst. destruct (IH _ _ _ _ _ _ E2) as (l' & o' & E' & Hn).
           rewrite E'. exists l', o'. split; [reflexivity|exact Hn].
Qed.

Lemma delay_loop_prefix ds : forall H h now l o,
  delay_loop H h now ds = (l, o) ->
  exists l' o', delay_loop None h now ds = (l ++ l', o') /\
                (o <> Interrupted -> l' = [] /\ o' = o).
Proof.
  induction ds as [|d ds IH]; intros H h now l o E.
  - cbn -[Z.ltb Z.add wait] in *. rewrite andb_false_r.
    destruct (is_suspend h && cut H (wait h now)).
    + inversion E; subst. eexists _, _. split; [reflexivity|]. intros C; congruence.
    + inversion E; subst. exists [], Completed. auto.
  - cbn -[Z.ltb Z.add wait] in *. rewrite !andb_false_r.
    destruct (is_suspend h && cut H (wait h now)).
    + inversion E; subst.
      destruct (delay_loop None h (wait h now + d) ds) as [l1 o1].
      eexists _, _. split; [reflexivity|]. intros C; congruence.
    + destruct ((0 <? d) && cut H (wait h now + d)).
      * inversion E; subst. destruct (delay_loop None h (wait h now + d) ds) as [l1 o1].
        exists l1, o1. split; [reflexivity|]. intros C; congruence.
      * destruct (delay_loop H h (wait h now + d) ds) as [l2 o2] eqn:E2.
        inversion E; subst. destruct (IH _ _ _ _ _ E2) as (l' & o' & E' & Hn).
        rewrite E'. exists l', o'. split; [reflexivity|exact Hn].
Qed.

(** nested in until(): the ticks seen are a prefix of the un-nested ticks (same dates, same values),
    and unless the block was interrupted the whole run is the same *)
Theorem nested_is_prefix : forall H start p ds l o,
  (interval_run H start p ds = (l, o) ->
   exists l' o', interval_run None start p ds = (l ++ l', o') /\ (o <> Interrupted -> l' = [] /\ o' = o)) /\
  (delay_run H start p ds = (l, o) ->
   exists l' o', delay_run None start p ds = (l ++ l', o') /\ (o <> Interrupted -> l' = [] /\ o' = o)).
Proof.
  intros H start p ds l o. unfold interval_run, delay_run. split; intros E.
  - destruct (p <? 0); [inversion E; subst; exists [], ValueErr; auto|].
    eapply interval_loop_prefix; eassumption.
  - destruct (p <? 0); [inversion E; subst; exists [], ValueErr; auto|].
    eapply delay_loop_prefix; eassumption.
Qed.

(** ---------- the hypotheses are satisfiable / concrete runs ---------- *)

Example interval_short_bodies :
  run_case (false, None, 3, 5, [2; 5; 0]) =
  ([(8, 8, 5); (13, 13, 3); (18, 18, 0); (23, 23, 5)], 0).
Proof. reflexivity. Qed.

Example interval_long_body :
  run_case (false, None, 0, 5, [2; 6; 1]) = ([(5, 5, 5); (10, 10, 3)], 1).
Proof. reflexivity. Qed.

Example delay_bodies :
  run_case (true, None, 0, 5, [2; 6; 0]) = ([(5, 5, 5); (12, 12, 5); (23, 23, 5); (28, 28, 5)], 0).
Proof. reflexivity. Qed.

Example zero_period :
  run_case (false, None, 7, 0, [0; 0; 1]) = ([(7, 7, 0); (7, 7, 0); (7, 7, 0)], 1).
Proof. reflexivity. Qed.

Example nested_until :
  run_case (false, Some 12, 0, 5, [2; 1; 1]) = ([(5, 5, 5); (10, 10, 3)], 3).
Proof. reflexivity. Qed.
