(** Formulas over dates: [time >= d], [time < d], [time == d] combined with [&] and [|].
    The oracle used for C01 (harness/monitors.py, expected_resume) says: a wait for such a formula that starts at [t0]
    ends at the first element of {t0} ∪ {dates mentioned, later than t0} at which the formula holds.  This file proves
    the fact that makes the candidate set complete: such a formula can only BECOME true at one of the dates it mentions
    (it has no negation: [after] turns true at its date, [before] only ever turns false, [moment] is true at its date
    only), so between two consecutive candidates nothing is missed. *)
From Coq Require Import ZArith List Bool Lia.
Import ListNotations.
Local Open Scope Z_scope.

Inductive tform :=
| TAfter (d : Z) | TBefore (d : Z) | TMoment (d : Z) | TInstant | TEternity
| TAnd (a b : tform) | TOr (a b : tform).

Fixpoint tholds (w : tform) (t : Z) : bool :=
  match w with
  | TAfter d => d <=? t
  | TBefore d => t <? d
  | TMoment d => t =? d
  | TInstant => true
  | TEternity => false
  | TAnd a b => tholds a t && tholds b t
  | TOr a b => tholds a t || tholds b t
  end.

Fixpoint tdates (w : tform) : list Z :=
  match w with
  | TAfter d | TBefore d | TMoment d => [d]
  | TInstant | TEternity => []
  | TAnd a b | TOr a b => tdates a ++ tdates b
  end.

(** a formula that does not hold at [t1] but holds at a later [t2] mentions a date in (t1, t2] *)
Lemma becomes_true_at_a_date w : forall t1 t2, t1 < t2 -> tholds w t1 = false -> tholds w t2 = true ->
  exists d, In d (tdates w) /\ t1 < d <= t2.
Proof.
  induction w as [d|d|d| | |a IHa b IHb|a IHa b IHb]; intros t1 t2 Hlt H1 H2; cbn [tholds tdates] in *.
  - exists d. split; [left; reflexivity|]. apply Z.leb_gt in H1. apply Z.leb_le in H2. lia.
  - apply Z.ltb_ge in H1. apply Z.ltb_lt in H2. lia.
  - exists d. split; [left; reflexivity|]. apply Z.eqb_neq in H1. apply Z.eqb_eq in H2. lia.
  - discriminate.
  - discriminate.
  - apply andb_true_iff in H2. destruct H2 as [Ha Hb]. apply andb_false_iff in H1. destruct H1 as [H1|H1].
    + destruct (IHa t1 t2 Hlt H1 Ha) as [d [Hin Hd]]. exists d. split; [apply in_or_app; left; exact Hin|exact Hd].
    + destruct (IHb t1 t2 Hlt H1 Hb) as [d [Hin Hd]]. exists d. split; [apply in_or_app; right; exact Hin|exact Hd].
  - apply orb_false_iff in H1. destruct H1 as [Ha Hb]. apply orb_true_iff in H2. destruct H2 as [H2|H2].
    + destruct (IHa t1 t2 Hlt Ha H2) as [d [Hin Hd]]. exists d. split; [apply in_or_app; left; exact Hin|exact Hd].
    + destruct (IHb t1 t2 Hlt Hb H2) as [d [Hin Hd]]. exists d. split; [apply in_or_app; right; exact Hin|exact Hd].
Qed.

(** sharper: it holds AT such a date already (the first moment of truth in (t1, t2] is a date) *)
Lemma first_truth_is_a_date w : forall t1 t2, t1 < t2 -> tholds w t1 = false -> tholds w t2 = true ->
  exists d, In d (tdates w) /\ t1 < d <= t2 /\ tholds w d = true.
Proof.
  intros t1 t2 Hlt H1 H2.
  (* strong induction on the number of dates in (t1, t2]: take the date found, if the formula does not hold there, recurse on (d, t2] *)
  remember (Z.to_nat (t2 - t1)) as n eqn:Hn. revert t1 t2 Hlt H1 H2 Hn.
  induction n as [n IH] using lt_wf_ind. intros t1 t2 Hlt H1 H2 Hn.
  destruct (becomes_true_at_a_date w t1 t2 Hlt H1 H2) as [d [Hin Hd]].
  destruct (tholds w d) eqn:Hwd.
  - exists d. repeat split; try lia; assumption.
  - assert (d < t2) as Hdt by (destruct (Z.eq_dec d t2) as [->|]; [congruence|lia]).
    destruct (IH (Z.to_nat (t2 - d))) with (t1 := d) (t2 := t2) as [d' [Hin' [Hd' Hw']]]; try assumption; try reflexivity.
    + subst n. apply Z2Nat.inj_lt; lia.
    + exists d'. repeat split; try lia; assumption.
Qed.

(** the oracle's candidate set is complete: if the formula does not hold when the wait starts and holds at some later time,
    the earliest candidate (a mentioned date later than the start) at which it holds is not later than that time *)
Theorem candidates_complete w t0 t : t0 < t -> tholds w t0 = false -> tholds w t = true ->
  exists d, In d (tdates w) /\ t0 < d <= t /\ tholds w d = true.
Proof. exact (first_truth_is_a_date w t0 t). Qed.

(** once the dates are behind, a formula without negation never becomes true again *)
Corollary never_after_all_dates w t0 : (forall d, In d (tdates w) -> d <= t0) -> tholds w t0 = false ->
  forall t, t0 < t -> tholds w t = false.
Proof.
  intros Hd H0 t Hlt. destruct (tholds w t) eqn:Ht; [|reflexivity].
  destruct (becomes_true_at_a_date w t0 t Hlt H0 Ht) as [d [Hin Hr]]. specialize (Hd d Hin). lia.
Qed.

Example ex_formula :
  let w := TOr (TAnd (TAfter 10) (TAfter 20)) (TMoment 100) in
  tholds w 0 = false /\ tholds w 20 = true /\ tdates w = [10; 20; 100] /\ tholds w 10 = false.
Proof. vm_compute. repeat split. Qed.
